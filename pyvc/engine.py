"""Path-exploring symbolic executor + obligation store (DESIGN 2.4, 4).

A *harness* is a Python function `h(E)` living in /verif/contracts.  It builds
symbolic inputs (E.real, E.reals, ...), states the precondition (E.assume),
calls the REAL atomman function re-instantiated from /repo's source by the
loader, and states the postcondition (E.prove).  `bool()` of a symbolic
condition anywhere in the executed code reaches `Engine.branch`, which forks:
the harness is re-executed once per feasible decision prefix.  With full-domain
symbolic inputs and loop-free code (or loops cut by invariants) the set of
obligations produced covers every input.
"""
import time
import traceback
from fractions import Fraction

import numpy as _np

from . import terms as tm
from . import poly
from . import smt
from .sym import Sym, LeftFragment, set_engine, lift
from . import symnp


class Guard(object):
    """a symbolic condition under which both arms of a merged conditional are executed"""
    __slots__ = ('t',)

    def __init__(self, t):
        self.t = t


def guard_value(test):
    """True / False for a concrete test; a Guard for a symbolic one (or for an array-valued one: NumPy's truth rule applies)"""
    from .sym import get_engine
    if isinstance(test, Sym):
        b = test._b()
        if b.op == 'bconst':
            return bool(b.args[0])
        eng = get_engine()
        if eng is None:
            return bool(test)
        # decided by the path condition?  then no merge is needed
        return Guard(b)
    return True if test else False


def guard_push(g, positive):
    from .sym import get_engine
    eng = get_engine()
    eng.guard_stack.append(g.t if positive else tm.not_(g.t))


def guard_pop():
    from .sym import get_engine
    get_engine().guard_stack.pop()


def current_guard():
    from .sym import get_engine
    eng = get_engine()
    if eng is None or not eng.guard_stack:
        return None
    return tm.and_(*eng.guard_stack)


def guard_select(value, old_thunk):
    """name assignment under a guard: ite(guard, value, old); an unbound old name keeps the new value"""
    g = current_guard()
    if g is None:
        return value
    try:
        old = old_thunk()
    except NameError:
        return value
    return symnp.select(g, value, old)


class PathAbandoned(Exception):
    """raised by engine hooks to end the current path normally (e.g. after a loop cut)"""


class TooManyPaths(Exception):
    pass


class Obligation(object):
    __slots__ = ('name', 'pc', 'goal', 'path', 'kind', 'result', 'backend', 'seconds', 'model', 'detail', 'expect')

    def __init__(self, name, pc, goal, path, kind='post', expect='unsat'):
        self.name = name
        self.pc = tuple(pc)
        self.goal = goal
        self.path = path
        self.kind = kind
        self.expect = expect      # 'unsat' normal obligation; 'sat' canary / reachability witness
        self.result = None        # 'proved' | 'refuted' | 'unknown' | 'error'
        self.backend = None
        self.seconds = 0.0
        self.model = None
        self.detail = ''

    @property
    def stem(self):
        return self.name.split('#')[0]


class Engine(object):
    MAX_PATHS = 4096

    def __init__(self, group, tier='quick', timeout_ms=None, branch_timeout_ms=3000):
        self.group = group
        self.tier = tier
        self.timeout_ms = timeout_ms or (10000 if tier == 'quick' else 60000)
        self.branch_timeout_ms = branch_timeout_ms
        self.obligations = []
        self.paths = 0
        self.vacuous_paths = 0
        self.left_fragment = []       # (path, message)
        self.unexpected = []          # (path, exception text)
        self.pc = []
        self.decisions = []
        self.prefix = []
        self.worklist = []
        self._feas_cache = {}
        self._names = 0
        self.text_hook = None
        self.inv_hook = None
        self.side_enabled = True
        self.side_seen = set()
        self.inputs = {}              # name -> sort (declared inputs, for replay)
        self.notes = []
        self.solver_seconds = 0.0
        self.path_sat_known = False
        self.stats = {'branch_checks': 0}
        self.side_mode = 'emit'
        self.guard_stack = []
        self.guard_log = []           # (array id, index, guard term, new value, old value) of every guarded element store
        self.collected = []
        self.quotients = {}           # (dividend uid, divisor uid) -> (quotient term, defining assumption term)

    # -- symbolic inputs --------------------------------------------------------------
    def real(self, name):
        self.inputs[name] = 'R'
        return Sym(tm.var(name, tm.R))

    def int(self, name):
        self.inputs[name] = 'I'
        return Sym(tm.var(name, tm.I))

    def bool(self, name):
        self.inputs[name] = 'B'
        return Sym(tm.var(name, tm.B))

    def reals(self, name, shape):
        a = _np.empty(shape, dtype=object)
        for idx in _np.ndindex(*a.shape):
            a[idx] = self.real('%s_%s' % (name, '_'.join(str(i) for i in idx)))
        return a.view(symnp.SymArray)

    def ints(self, name, shape):
        a = _np.empty(shape, dtype=object)
        for idx in _np.ndindex(*a.shape):
            a[idx] = self.int('%s_%s' % (name, '_'.join(str(i) for i in idx)))
        return a.view(symnp.SymArray)

    def fresh(self, base, sort='R'):
        self._names += 1
        n = '%s!%d' % (base, self._names)
        return Sym(tm.var(n, {'R': tm.R, 'I': tm.I, 'B': tm.B}[sort]))

    # -- assumptions / obligations ---------------------------------------------------
    @staticmethod
    def _cond_terms(cond):
        """Sym / bool / array of those  ->  list of Bool terms"""
        if isinstance(cond, Sym):
            return [cond._b()]
        if isinstance(cond, (bool, _np.bool_)):
            return [tm.const(bool(cond))]
        if isinstance(cond, _np.ndarray):
            out = []
            for x in cond.ravel():
                out.extend(Engine._cond_terms(x))
            return out
        if isinstance(cond, (list, tuple)):
            out = []
            for x in cond:
                out.extend(Engine._cond_terms(x))
            return out
        if isinstance(cond, tm.T):
            return [cond]
        raise TypeError('not a condition: %r' % (cond,))

    def assume(self, cond):
        for t in self._cond_terms(cond):
            if t.op == 'bconst':
                if not t.args[0]:
                    raise PathAbandoned('assumption is false')
                continue
            self.pc.append(t)
            self.path_sat_known = False

    def prove(self, name, cond, kind='post'):
        ts = self._cond_terms(cond)
        for k, t in enumerate(ts):
            nm = name if len(ts) == 1 else '%s[%d]' % (name, k)
            self.obligations.append(Obligation('%s#p%d' % (nm, self.paths), self.pc, t, self.paths, kind))

    def shape(self, name, cond):
        """an obligation about how the code under check is ARRANGED (a block was located, a callee is reached exactly once): the proof that follows depends on it,
        the property does not.  Proved when it holds; when it fails the group's replay decides (failing input -> violation, none -> undecided)."""
        self.prove(name, cond, kind='shape')
        if any(t.op == 'bconst' and not t.args[0] for t in self._cond_terms(cond)):
            # nothing that follows in this harness is meaningful for this source
            raise LeftFragment('the code is not arranged as the proof of %s expects' % name)

    def prove_eq(self, name, a, b):
        """element-wise equality of two (arrays of) symbolic values; shapes must agree"""
        a = symnp.asarray(a)
        b = symnp.asarray(b)
        if a.shape != b.shape:
            self.obligations.append(Obligation('%s.shape#p%d' % (name, self.paths), self.pc, tm.FALSE, self.paths))
            return
        fa, fb = a.ravel(), b.ravel()
        for k in range(fa.size):
            ta, tb = lift(fa[k]), lift(fb[k])
            nm = name if fa.size == 1 else '%s[%d]' % (name, k)
            self.obligations.append(Obligation('%s#p%d' % (nm, self.paths), self.pc, tm.eq(ta, tb), self.paths))

    def lemma(self, name, cond):
        """intermediate fact: proved under the current path condition, then available as an assumption"""
        ts = self._cond_terms(cond)
        for k, t in enumerate(ts):
            nm = name if len(ts) == 1 else '%s[%d]' % (name, k)
            self.obligations.append(Obligation('%s#p%d' % (nm, self.paths), self.pc, t, self.paths, 'lemma'))
            if t.op != 'bconst':
                self.pc.append(t)

    def canary(self, name, cond):
        """a deliberately false claim: must be refuted (vacuity guard)"""
        ts = self._cond_terms(cond)
        self.obligations.append(Obligation('%s#p%d' % (name, self.paths), self.pc, tm.and_(*ts), self.paths,
                                           kind='canary', expect='sat'))

    def reachable(self, name):
        """the current path condition must be satisfiable (precondition not contradictory)"""
        self.obligations.append(Obligation('%s#p%d' % (name, self.paths), self.pc, tm.FALSE, self.paths,
                                           kind='reach', expect='sat'))

    def side_condition(self, kind, term):
        if not self.side_enabled:
            return
        if term.op == 'bconst':
            if term.args[0]:
                return
        key = (kind, term.uid, tuple(t.uid for t in self.pc))
        if key in self.side_seen:
            return
        self.side_seen.add(key)
        # cheap syntactic discharge: already among the path facts
        if term in self.pc:
            return
        if self.side_mode == 'collect':
            # the harness takes over: it must discharge the condition with discharge_side(); whatever is left is
            # emitted as an ordinary obligation at the end of the path (nothing is dropped)
            self.collected.append({'kind': kind, 'term': term, 'pos': len(self.pc), 'done': False, 'path': self.paths})
            self.pc.append(term)
            return
        self.obligations.append(Obligation('%s.%s#p%d.%d' % (self.group, kind, self.paths, len(self.obligations)),
                                           self.pc, term, self.paths, kind='side'))
        # assert-then-assume
        self.pc.append(term)

    def note(self, s):
        if s not in self.notes:
            self.notes.append(s)

    # -- lemmas by abstraction (opaque / reveal) --------------------------------------------------
    def abstract_lemma(self, name, conc, facts, goal, pc=None):
        """Prove goal(conc) in two machine-checked steps:
          (a) every fact(conc) is an obligation under `pc` (default: the current path condition) -- typically ring identities
              about the big concrete terms, decided by the normaliser;
          (b) the CLOSED formula  forall fresh v:  facts(v) => goal(v)  is an obligation with an empty path condition, where each
              concrete value was replaced by a fresh variable of the same sort/shape (the definitions are hidden from the solver).
        goal(conc) then follows by instantiating v := conc; `facts` and `goal` must be schematic (apply the same operations to
        whatever values they receive).  Returns goal(conc) as a Bool term; the caller may add it to the path condition."""
        pc = list(self.pc if pc is None else pc)
        saved_side = self.side_enabled
        self.side_enabled = False      # spec-level expressions: SMT's total semantics of division applies to both steps
        try:
            return self._abstract_lemma(name, conc, facts, goal, pc)
        finally:
            self.side_enabled = saved_side

    def _abstract_lemma(self, name, conc, facts, goal, pc):
        fc = facts(conc)
        for label, cond in fc:
            for k, t in enumerate(self._cond_terms(cond)):
                self.obligations.append(Obligation('%s.fact.%s%s#p%d' % (name, label, '' if k == 0 else '[%d]' % k, self.paths), pc, t, self.paths, 'lemma'))
        absv = {}
        for key, v in conc.items():
            absv[key] = self._fresh_like('%s~%s' % (name, key), v)
        fa = []
        for label, cond in facts(absv):
            fa.extend(self._cond_terms(cond))
        ga = tm.and_(*self._cond_terms(goal(absv)))
        self.obligations.append(Obligation('%s.abstract#p%d' % (name, self.paths), [t for t in fa if t.op != 'bconst' or not t.args[0]], ga, self.paths, 'lemma'))
        return tm.and_(*self._cond_terms(goal(conc)))

    def learn(self, term):
        """add a fact returned by abstract_lemma (i.e. proved by its two obligations) to the path condition, conjunct by conjunct"""
        ts = term.args if term.op == 'and' else (term,)
        for t in ts:
            if t.op == 'bconst':
                continue
            if t not in self.pc:
                self.pc.append(t)

    def _fresh_like(self, base, v):
        if isinstance(v, Sym):
            if v.is_concrete():
                return v
            self._abs_names = getattr(self, '_abs_names', 0) + 1
            return Sym(tm.var('%s!a%d' % (base, self._abs_names), v.t.sort))
        if isinstance(v, _np.ndarray):
            out = _np.empty(v.shape, dtype=object)
            for idx in _np.ndindex(*v.shape):
                out[idx] = self._fresh_like('%s_%s' % (base, '_'.join(str(i) for i in idx)), v[idx])
            return out.view(symnp.SymArray)
        if isinstance(v, (list, tuple)):
            return type(v)(self._fresh_like('%s_%d' % (base, i), x) for i, x in enumerate(v))
        return v

    def discharge_side(self, entry, name, conc, facts, goal):
        """discharge a collected side condition by an abstraction lemma whose conclusion is exactly that condition;
        the lemma's facts are proved under the path condition as it was when the side condition arose (no circularity)"""
        g = self.abstract_lemma(name, conc, facts, goal, pc=self.pc[:entry['pos']])
        if g is not entry['term']:
            raise AssertionError('abstraction lemma %s concludes %s, not the side condition %s' % (name, tm.show(g), tm.show(entry['term'])))
        entry['done'] = True

    def flush_collected(self):
        for e in self.collected:
            if not e['done']:
                self.obligations.append(Obligation('%s.%s#p%d.%d' % (self.group, e['kind'], e['path'], len(self.obligations)),
                                                   self.pc[:e['pos']], e['term'], e['path'], kind='side'))
                e['done'] = True
        self.collected = []

    # -- branching ---------------------------------------------------------------------
    def _sat(self, terms, timeout_ms):
        key = tuple(sorted(t.uid for t in terms))
        r = self._feas_cache.get(key)
        if r is not None:
            return r
        self.stats['branch_checks'] += 1
        text, pure_real, _ = smt.to_smt2(terms, tm.FALSE)
        t0 = time.time()
        r, _m, _dt = smt.solve_z3(text, pure_real, timeout_ms)
        self.solver_seconds += time.time() - t0
        self._feas_cache[key] = r
        return r

    def branch(self, t):
        k = len(self.decisions)
        if k < len(self.prefix):
            d = self.prefix[k]
        else:
            rt = self._sat(self.pc + [t], self.branch_timeout_ms)
            rf = self._sat(self.pc + [tm.not_(t)], self.branch_timeout_ms)
            can_t = rt != 'unsat'
            can_f = rf != 'unsat'
            if can_t and can_f:
                self.worklist.append(self.decisions + [False])
                d = True
            elif can_t:
                d = True
            elif can_f:
                d = False
            else:
                raise PathAbandoned('path condition became unsatisfiable')
            if (d and rt == 'sat') or (not d and rf == 'sat'):
                self.path_sat_known = True
        self.decisions.append(d)
        self.pc.append(t if d else tm.not_(t))
        return d

    # -- running -----------------------------------------------------------------------
    def run(self, harness):
        self.worklist = [[]]
        self.abandoned = []
        set_engine(self)
        try:
            while self.worklist:
                if self.paths >= self.MAX_PATHS:
                    raise TooManyPaths('%s: more than %d paths' % (self.group, self.MAX_PATHS))
                self.prefix = self.worklist.pop()
                self.decisions = []
                self.pc = []
                self._names = 0
                self.path_sat_known = False
                self.collected = []
                self.guard_stack = []
                self.guard_log = []
                try:
                    harness(self)
                    self.flush_collected()
                except PathAbandoned as e:
                    self.abandoned.append((self.paths, '%s\n%s' % (e, _short_tb())))
                    self.flush_collected()
                except LeftFragment as e:
                    self.left_fragment.append((self.paths, '%s\n%s' % (e, _short_tb())))
                except TooManyPaths:
                    raise
                except Exception as e:
                    # an exception the contract did not declare as a refusal: obligation "pc is infeasible"
                    self.unexpected.append((self.paths, '%s: %s\n%s' % (type(e).__name__, e, _short_tb())))
                    self.obligations.append(Obligation(
                        '%s.no_unexpected_exception(%s)#p%d' % (self.group, type(e).__name__, self.paths),
                        self.pc, tm.FALSE, self.paths, kind='exception'))
                self.paths += 1
        finally:
            set_engine(None)
        return self

    # -- discharge ---------------------------------------------------------------------
    def prepare(self):
        """phase 1 of discharge: trivial + ringnorm in-process; SMT text for the rest (solved by the caller's pool)"""
        pending = []
        for k, ob in enumerate(self.obligations):
            t0 = time.time()
            if ob.expect == 'unsat':
                if (ob.goal.op == 'bconst' and ob.goal.args[0]) or ob.goal in ob.pc:
                    ob.result, ob.backend = 'proved', 'trivial'
                    continue
                try:
                    rg = _ring_goal(ob.goal, ob.pc)
                    if rg:
                        ob.result, ob.backend = 'proved', ('ringnorm' if rg is True else 'ringnorm-mod-hyps')
                        ob.seconds = time.time() - t0
                        continue
                    if ob.kind == 'side' and ob.goal.op == 'le' and tm.is_const(ob.goal.args[0]) and ob.goal.args[0].args[0] == 0 \
                            and _is_sum_of_squares(ob.goal.args[1]):
                        ob.result, ob.backend = 'proved', 'sum-of-squares'
                        continue
                except RecursionError:
                    pass
            text, pure_real, _vs = smt.to_smt2(ob.pc, ob.goal)
            relaxed = None
            if not pure_real and ob.expect == 'unsat':
                relaxed = smt.to_smt2_relaxed(ob.pc, ob.goal)
            pending.append((k, text, pure_real, relaxed))
        return pending

    def discharge(self, use_cvc5=True):
        for ob in self.obligations:
            t0 = time.time()
            _discharge_one(ob, self.timeout_ms, use_cvc5)
            ob.seconds = time.time() - t0
            if ob.backend != 'ringnorm' and ob.backend != 'trivial':
                self.solver_seconds += ob.seconds
        return self.obligations


def _short_tb():
    tb = traceback.format_exc().strip().splitlines()
    keep = [l for l in tb if '/repo/' in l or 'contracts/' in l]
    return '\n'.join(keep[-6:])


def _ring_goal(goal, pc=()):
    """try to decide the goal by normalisation alone (modulo the polynomial equalities among pc); True / None"""
    if goal.op == 'bconst':
        return True if goal.args[0] else None
    if goal.op == 'eq':
        a, b = goal.args
        if a.sort != tm.B:
            if poly.equal(a, b):
                return True
            eqs = [t for t in pc if t.op == 'eq' and t.args[0].sort != tm.B]
            if eqs and poly.equal_mod(a, b, eqs):
                return 'mod'
        return None
    if goal.op == 'and':
        rs = [_ring_goal(g, pc) for g in goal.args]
        if all(rs):
            return 'mod' if 'mod' in rs else True
        return None
    if goal.op == 'le':
        a, b = goal.args
        if poly.equal(a, b):
            return True
    return None


def _is_sum_of_squares(t):
    """structural: t is a sum whose summands are x*x (same node) or non-negative constants"""
    if t.op == 'add':
        return all(_is_sum_of_squares(a) for a in t.args)
    if t.op == 'mul':
        a, b = t.args
        if a is b:
            return True
        if a.op == 'const' and a.args[0] >= 0:
            return _is_sum_of_squares(b)
        return False
    if t.op == 'const':
        return t.args[0] >= 0
    if t.op == 'toreal':
        return _is_sum_of_squares(t.args[0])
    if t.op == 'ite':
        return _is_sum_of_squares(t.args[1]) and _is_sum_of_squares(t.args[2])
    return False


def _discharge_one(ob, timeout_ms, use_cvc5=True):
    if ob.expect == 'unsat':
        if ob.goal.op == 'bconst' and ob.goal.args[0]:
            ob.result, ob.backend = 'proved', 'trivial'
            return
        if ob.goal in ob.pc:
            ob.result, ob.backend = 'proved', 'trivial'
            return
        try:
            if _ring_goal(ob.goal):
                ob.result, ob.backend = 'proved', 'ringnorm'
                return
        except RecursionError:
            pass
    text, pure_real, varsorts = smt.to_smt2(ob.pc, ob.goal)
    r, model, backend, dt = smt.solve(text, pure_real, timeout_ms, use_cvc5)
    ob.backend = backend
    if ob.expect == 'unsat':
        if r == 'unsat':
            ob.result = 'proved'
        elif r == 'sat':
            ob.result = 'refuted'
            ob.model = model
        else:
            ob.result = 'unknown'
            ob.detail = str(model)[:300]
    else:
        # canary / reachability: expected to be satisfiable (for canaries: pc and not goal sat)
        if ob.kind == 'reach':
            # text encodes pc and not FALSE == pc
            pass
        if r == 'sat':
            ob.result = 'proved'
            ob.model = model
        elif r == 'unsat':
            ob.result = 'refuted'
            ob.detail = 'expected satisfiable (canary/reachability) but is unsatisfiable: vacuous'
        else:
            ob.result = 'unknown'
            ob.detail = str(model)[:300]
