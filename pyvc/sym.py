"""Symbolic scalar `Sym`: a Python value wrapping a term, overloading the numeric
protocol so that unmodified atomman / NumPy code computes with it.

`bool(sym)` on a non-constant condition is the hook through which the engine
forks paths (see engine.Engine.branch).
"""
from fractions import Fraction
import math
from . import terms as tm


class LeftFragment(Exception):
    """the code under proof did something the encoding does not model"""


_engine = [None]   # set by engine while a harness runs


def set_engine(e):
    _engine[0] = e


def get_engine():
    return _engine[0]


def float_to_fraction(x):
    """decimal reading of a float (DESIGN 2.2/2.6): the simplest rational that
    rounds to the same double, else the exact binary value"""
    if x != x or x in (float('inf'), float('-inf')):
        raise LeftFragment('non-finite float %r' % x)
    if x == int(x) and abs(x) < 2 ** 53:
        return Fraction(int(x))
    f = Fraction(x).limit_denominator(10 ** 12)
    if float(f) == x:
        return f
    f = Fraction(repr(x))
    if float(f) == x:
        return f
    return Fraction(x)


def lift(x):
    """Python/NumPy scalar or Sym -> term"""
    if isinstance(x, Sym):
        return x.t
    if isinstance(x, bool):
        return tm.const(x)
    if isinstance(x, int):
        return tm.const(x, tm.I)
    if isinstance(x, Fraction):
        return tm.const(x, tm.R)
    if isinstance(x, float):
        return tm.const(float_to_fraction(x), tm.R)
    import numpy as np
    if isinstance(x, np.bool_):
        return tm.const(bool(x))
    if isinstance(x, np.integer):
        return tm.const(int(x), tm.I)
    if isinstance(x, np.floating):
        return tm.const(float_to_fraction(float(x)), tm.R)
    if isinstance(x, np.ndarray) and x.shape == ():
        return lift(x.item())
    return None


def _num(x):
    t = lift(x)
    if t is None or t.sort == tm.B:
        if t is not None:   # bool in arithmetic: True -> 1
            return tm.ite(t, tm.IONE, tm.IZERO)
        return None
    return t


class Sym(object):
    __slots__ = ('t',)

    def __init__(self, t):
        self.t = t

    # -- identity / copying --------------------------------------------------
    def __hash__(self):
        return hash(self.t.uid)

    def __deepcopy__(self, memo):
        return self

    def __copy__(self):
        return self

    def __reduce__(self):
        raise LeftFragment('pickling a symbolic value')

    def __repr__(self):
        return 'Sym(%s)' % tm.show(self.t)

    __str__ = __repr__

    def __format__(self, spec):
        if self.is_concrete():
            return format(float(self.t.args[0]), spec)
        eng = get_engine()
        if eng is not None and eng.text_hook is not None:
            return eng.text_hook(self, spec)
        raise LeftFragment('formatting a symbolic value')

    @property
    def sort(self):
        return self.t.sort

    def is_concrete(self):
        return tm.is_const(self.t)

    def value(self):
        return self.t.args[0]

    # -- arithmetic ------------------------------------------------------------
    def _bin(self, other, f, swap=False):
        if isinstance(other, complex) or getattr(other, '_pyvc_complex', False) or type(other).__name__.startswith('complex'):
            return NotImplemented          # complex arithmetic is CSym's (its reflected operators take over)
        o = _num(other)
        if o is None:
            return NotImplemented
        s = self.t
        if s.sort == tm.B:
            s = tm.ite(s, tm.IONE, tm.IZERO)
        return Sym(f(o, s) if swap else f(s, o))

    def __add__(self, o): return self._bin(o, tm.add)
    def __radd__(self, o): return self._bin(o, tm.add, True)
    def __sub__(self, o): return self._bin(o, tm.sub)
    def __rsub__(self, o): return self._bin(o, tm.sub, True)
    def __mul__(self, o): return self._bin(o, tm.mul)
    def __rmul__(self, o): return self._bin(o, tm.mul, True)

    def _div(self, a, b):
        eng = get_engine()
        q = _exact_quotient(eng, a, b)
        if q is not None:
            return tm.to_real(q)
        if eng is not None and not tm.is_const(b):
            eng.side_condition('div_nonzero', tm.ne(b, tm.const(0, b.sort)))
        if tm.is_const(b) and b.args[0] == 0:
            raise ZeroDivisionError('division by zero')
        return tm.div(a, b)

    def __truediv__(self, o): return self._bin(o, self._div)
    def __rtruediv__(self, o): return self._bin(o, self._div, True)

    def _idiv(self, a, b):
        eng = get_engine()
        q = _exact_quotient(eng, a, b)
        if q is not None:
            return q
        if eng is not None and not tm.is_const(b):
            eng.side_condition('div_nonzero', tm.ne(b, tm.const(0, b.sort)))
        return tm.idiv(a, b)

    def _imod(self, a, b):
        eng = get_engine()
        if eng is not None and not tm.is_const(b):
            eng.side_condition('div_nonzero', tm.ne(b, tm.const(0, b.sort)))
        return tm.imod(a, b)

    def __floordiv__(self, o): return self._bin(o, self._idiv)
    def __rfloordiv__(self, o): return self._bin(o, self._idiv, True)
    def __mod__(self, o): return self._bin(o, self._imod)
    def __rmod__(self, o): return self._bin(o, self._imod, True)

    def __divmod__(self, o):
        return (self // o, self % o)

    def __neg__(self): return Sym(tm.neg(self.t))
    def __pos__(self): return self
    def __abs__(self): return Sym(tm.abs_(self.t))

    def __pow__(self, o, mod=None):
        e = _num(o)
        if e is None:
            return NotImplemented
        return Sym(power(self.t, e))

    def __rpow__(self, o):
        b = _num(o)
        if b is None:
            return NotImplemented
        return Sym(power(b, self.t))

    # -- comparison ------------------------------------------------------------
    def _cmp(self, other, f):
        if isinstance(other, float) and other in (float('inf'), float('-inf')):
            # every symbolic real is finite: comparisons with an infinity are decided
            pos = other > 0
            return {tm.lt: pos, tm.le: pos, tm.gt: not pos, tm.ge: not pos, tm.eq: False, tm.ne: True}[f]
        o = lift(other)
        if o is None:
            return NotImplemented
        s = self.t
        if s.sort == tm.B and o.sort != tm.B:
            s = tm.ite(s, tm.IONE, tm.IZERO)
        if o.sort == tm.B and s.sort != tm.B:
            o = tm.ite(o, tm.IONE, tm.IZERO)
        return Sym(f(s, o))

    def __lt__(self, o): return self._cmp(o, tm.lt)
    def __le__(self, o): return self._cmp(o, tm.le)
    def __gt__(self, o): return self._cmp(o, tm.gt)
    def __ge__(self, o): return self._cmp(o, tm.ge)

    def __eq__(self, o):
        if o is None or isinstance(o, str):
            return False
        r = self._cmp(o, tm.eq)
        return r

    def __ne__(self, o):
        if o is None or isinstance(o, str):
            return True
        r = self._cmp(o, tm.ne)
        return r

    # -- boolean algebra (for Bool-sorted Syms; & | ~ ^) -------------------------
    def _b(self):
        if self.t.sort == tm.B:
            return self.t
        return tm.ne(self.t, tm.const(0, self.t.sort))

    def __and__(self, o):
        ot = lift(o)
        if ot is None or (ot.sort != tm.B and self.t.sort != tm.B):
            return NotImplemented
        return Sym(tm.and_(self._b(), Sym(ot)._b()))

    __rand__ = __and__

    def __or__(self, o):
        ot = lift(o)
        if ot is None or (ot.sort != tm.B and self.t.sort != tm.B):
            return NotImplemented
        return Sym(tm.or_(self._b(), Sym(ot)._b()))

    __ror__ = __or__

    def __xor__(self, o):
        ot = lift(o)
        if ot is None:
            return NotImplemented
        a, b = self._b(), Sym(ot)._b()
        return Sym(tm.or_(tm.and_(a, tm.not_(b)), tm.and_(tm.not_(a), b)))

    __rxor__ = __xor__

    def __invert__(self):
        if self.t.sort != tm.B:
            raise LeftFragment('bitwise invert of a symbolic integer')
        return Sym(tm.not_(self.t))

    # -- conversions to Python ----------------------------------------------------
    def __bool__(self):
        t = self._b()
        if t.op == 'bconst':
            return t.args[0]
        eng = get_engine()
        if eng is None:
            raise LeftFragment('truth value of a symbolic condition outside an engine run')
        return eng.branch(t)

    def __index__(self):
        if self.t.op == 'const' and self.t.args[0].denominator == 1 and self.t.sort == tm.I:
            return int(self.t.args[0])
        if self.t.sort == tm.B:
            raise TypeError('a boolean condition is not an index')
        if self.t.sort == tm.R:
            raise TypeError("'float' object cannot be interpreted as an integer")
        raise LeftFragment('symbolic value used as an index: %r' % self)

    def __int__(self):
        if self.t.op == 'const':
            return int(self.t.args[0])
        raise LeftFragment('int() of a symbolic value through a native code path: %r' % self)

    def __float__(self):
        if self.t.op == 'const':
            return float(self.t.args[0])
        raise LeftFragment('float() of a symbolic value through a native code path: %r' % self)

    def __round__(self, n=None):
        if n is None:
            r = Sym(tm.rint(self.t))
            return r
        sc = Fraction(10) ** n
        return Sym(tm.div(tm.to_real(tm.rint(tm.mul(self.t, tm.const(sc, tm.R)))), tm.const(sc, tm.R)))

    def __floor__(self): return Sym(tm.floor(self.t))
    def __ceil__(self): return Sym(tm.ceil(self.t))
    def __trunc__(self): return Sym(tm.trunc(self.t))

    # -- methods NumPy calls on object-array elements --------------------------
    def sqrt(self): return Sym(fn_sqrt(self.t))
    def cos(self): return Sym(tm.app('cos', (tm.to_real(self.t),)))
    def sin(self): return Sym(tm.app('sin', (tm.to_real(self.t),)))
    def arccos(self): return Sym(fn_arccos(self.t))
    def arcsin(self): return Sym(tm.app('arcsin', (tm.to_real(self.t),)))
    def arctan(self): return Sym(tm.app('arctan', (tm.to_real(self.t),)))
    def log(self): return Sym(fn_log(self.t))
    def exp(self): return Sym(tm.app('exp', (tm.to_real(self.t),)))
    def floor(self): return Sym(tm.to_real(tm.floor(self.t)))
    def ceil(self): return Sym(tm.to_real(tm.ceil(self.t)))
    def rint(self): return Sym(tm.to_real(tm.rint(self.t)))
    def conjugate(self): return self
    def item(self): return self

    def __getitem__(self, key):
        # NumPy scalars accept () / ... / newaxis indexing; a Sym stands for such a scalar
        import numpy as np
        from . import symnp
        a = np.empty((), dtype=object)
        a[()] = self
        r = a[key]
        if isinstance(r, np.ndarray):
            return r.view(symnp.SymArray) if r.ndim else r[()]
        return r

    @property
    def real(self): return self

    @property
    def imag(self): return Sym(tm.ZERO)

    @property
    def T(self): return self

    @property
    def shape(self): return ()

    @property
    def ndim(self): return 0

    @property
    def dtype(self):
        import numpy as np
        return np.dtype(object)


def _exact_quotient(eng, a, b):
    """a / b when an assumed dependency contract (np.lcm / np.gcd facade) introduced  a == b * q  with integer q
    on this path: the quotient is that q (times a constant factor of a).  Sound given the recorded assumption and b != 0."""
    if eng is None or not getattr(eng, 'quotients', None):
        return None
    c = None
    if a.op == 'mul' and a.args[0].op == 'const':
        c, a0 = a.args[0], a.args[1]
    else:
        a0 = a
    if a0.op == 'toreal':
        a0 = a0.args[0]
    b0 = b.args[0] if b.op == 'toreal' else b
    q = eng.quotients.get((a0.uid, b0.uid))
    if q is None:
        return None
    if not any(t is q[1] for t in eng.pc):
        return None            # the defining assumption is not on this path
    return tm.mul(c, q[0]) if c is not None else q[0]


def fn_sqrt(t):
    t = tm.to_real(t)
    r = tm.sqrt(t)
    eng = get_engine()
    if eng is not None and not tm.is_const(t):
        eng.side_condition('sqrt_arg_nonneg', tm.ge(t, tm.ZERO))
    elif tm.is_const(t) and t.args[0] < 0:
        raise LeftFragment('sqrt of a negative constant')
    return r


def fn_arccos(t):
    t = tm.to_real(t)
    if t.op == 'const':
        special = {Fraction(1): tm.ZERO, Fraction(0): tm.div(tm.var('pi'), tm.const(2, tm.R)),
                   Fraction(-1): tm.var('pi')}
        if t.args[0] in special:
            return special[t.args[0]]
    eng = get_engine()
    if eng is not None:
        eng.side_condition('arccos_arg_range', tm.and_(tm.le(tm.const(-1, tm.R), t), tm.le(t, tm.ONE)))
    return tm.app('arccos', (t,))


def fn_log(t):
    t = tm.to_real(t)
    eng = get_engine()
    if eng is not None:
        eng.side_condition('log_arg_positive', tm.gt(t, tm.ZERO))
    return tm.app('log', (t,))


def power(b, e):
    if e.op == 'const':
        q = e.args[0]
        if q.denominator == 1:
            n = int(q)
            if n < 0 and not tm.is_const(b):
                eng = get_engine()
                if eng is not None:
                    eng.side_condition('div_nonzero', tm.ne(b, tm.const(0, b.sort)))
            r = tm.powi(b, n)
            return r if e.sort == tm.I else tm.to_real(r)
        if q.denominator == 2:
            r = fn_sqrt(b)
            return tm.powi(r, int(q.numerator)) if q.numerator > 0 else tm.div(tm.ONE, tm.powi(r, -int(q.numerator)))
    if b.op == 'const' and e.op == 'const':
        return tm.const(float_to_fraction(float(b.args[0]) ** float(e.args[0])), tm.R)
    return tm.app('pow', (tm.to_real(b), tm.to_real(e)))


def real(name):
    return Sym(tm.var(name, tm.R))


def integer(name):
    return Sym(tm.var(name, tm.I))


def boolean(name):
    return Sym(tm.var(name, tm.B))


def const(x):
    t = lift(x)
    if t is None:
        raise TypeError(x)
    return Sym(t)


def realconst(x):
    """exact real constant from int/float/Fraction/str"""
    if isinstance(x, str):
        return Sym(tm.const(Fraction(x), tm.R))
    t = lift(x)
    return Sym(tm.to_real(t))
