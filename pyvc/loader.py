"""Re-instantiate atomman modules from /repo's *current* source text in a private
namespace, with `numpy` resolved to the symbolic facade (DESIGN 2.1).

Nothing is re-typed: the text is read, `.pyx` goes through the mechanical
`cy2py` stripper, the AST gets two generic rewrites (float literals -> exact
constants; optional loop cut-points from the sidecar contract), and the module
is compiled and executed.
"""
import ast
import builtins
import hashlib
import os
import re
import sys
import types

from . import symnp
from .sym import Sym, LeftFragment, realconst
from . import terms as tm

REPO = os.environ.get('PYVC_REPO', '/repo')


# ----------------------------------------------------------------------------
# cy2py

_CTYPES = (r'(?:const\s+)?(?:unsigned\s+)?(?:double|float|int|long\s+long|long|short|char|bint|void|Py_ssize_t|size_t|object|'
           r'np\.ndarray|np\.[a-z0-9_]+_t)\s*(?:\[[^\]]*\])?')
_re_cdef_var = re.compile(r'^(\s*)cdef\s+(' + _CTYPES + r')\s*(.*)$')
_re_cdef_fun = re.compile(r'^(\s*)c?p?def\s+(?:inline\s+)?(?:' + _CTYPES + r'\s+)?([A-Za-z_][A-Za-z0-9_]*)\s*\(')
_re_param_type = re.compile(r'^\s*(' + _CTYPES + r')\s+([A-Za-z_][A-Za-z0-9_]*)\s*(=.*)?$', re.S)


def cy2py(text):
    """returns (python_text, dropped) where dropped lists (lineno, kind, original)"""
    lines = text.split('\n')
    out = []
    dropped = []
    i = 0
    n = len(lines)
    while i < n:
        line = lines[i]
        s = line.strip()
        ind = line[:len(line) - len(line.lstrip())]
        if s.startswith('@cython.'):
            dropped.append((i + 1, 'decorator', s))
            out.append(ind + 'pass' if False else '')
            i += 1
            continue
        if s == 'cimport cython' or s == 'import cython':
            dropped.append((i + 1, 'cython import', s))
            out.append('')
            i += 1
            continue
        m = re.match(r'^(\s*)from\s+libc\.math\s+cimport\s+(.*)$', line)
        if m:
            dropped.append((i + 1, 'libc.math cimport -> facade import', s))
            out.append('%sfrom numpy import %s' % (m.group(1), m.group(2)))
            i += 1
            continue
        if ' cimport ' in line:
            dropped.append((i + 1, 'cimport -> import', s))
            out.append(line.replace(' cimport ', ' import '))
            i += 1
            continue
        # function definitions (cdef / cpdef / def with typed parameters)
        if re.match(r'^\s*(cdef|cpdef|def)\s', line) and '(' in line and not _re_cdef_var.match(line) or \
                (re.match(r'^\s*(cdef|cpdef)\s', line) and _re_cdef_fun.match(line) and '(' in line):
            mf = _re_cdef_fun.match(line)
            if mf:
                # gather the full signature up to the closing "):"
                j = i
                sig = line
                depth = sig.count('(') - sig.count(')')
                while depth > 0 and j + 1 < n:
                    j += 1
                    sig += '\n' + lines[j]
                    depth = sig.count('(') - sig.count(')')
                lpar = sig.index('(')
                rpar = sig.rindex(')')
                params = _split_params(sig[lpar + 1:rpar])
                newp = []
                changed = not line.lstrip().startswith('def ')
                for p in params:
                    mp = _re_param_type.match(p)
                    if mp:
                        changed = True
                        newp.append(mp.group(2) + (' ' + mp.group(3) if mp.group(3) else ''))
                    else:
                        newp.append(p.strip())
                tail = sig[rpar + 1:]
                tail = re.sub(r'\b(nogil|noexcept)\b', '', tail)
                tail = re.sub(r'except\s*[-+*?\w]*', '', tail)
                if changed:
                    dropped.append((i + 1, 'C types in signature', ' '.join(sig.split())))
                new = '%sdef %s(%s)%s' % (mf.group(1), mf.group(2), ', '.join(x for x in newp if x), tail)
                out.append(new)
                # keep line numbering: pad
                for _ in range(j - i):
                    out.append('')
                i = j + 1
                continue
        mv = _re_cdef_var.match(line)
        if mv:
            rest = mv.group(3).strip().rstrip(',')
            mc = re.match(r'^([A-Za-z_][A-Za-z0-9_]*)((?:\[\s*\d+\s*\])+)$', rest)
            if mc:
                # C array of fixed size: an (uninitialised) array of that shape
                dims = ', '.join(re.findall(r'\d+', mc.group(2)))
                dropped.append((i + 1, 'C array declaration -> uninitialised array of that shape', s))
                out.append('%s%s = __pyvc_carray__((%s,))' % (mv.group(1), mc.group(1), dims))
                i += 1
                continue
            if '=' in rest and not rest.split('=')[0].strip().count(','):
                dropped.append((i + 1, 'C type of declaration (assignment kept)', s))
                out.append('%s%s' % (mv.group(1), rest))
            else:
                dropped.append((i + 1, 'C declaration', s))
                out.append(mv.group(1) + 'pass')
            i += 1
            continue
        out.append(line)
        i += 1
    return '\n'.join(out), dropped


def _split_params(s):
    parts, depth, cur = [], 0, ''
    for ch in s:
        if ch in '([{':
            depth += 1
        elif ch in ')]}':
            depth -= 1
        if ch == ',' and depth == 0:
            parts.append(cur)
            cur = ''
        else:
            cur += ch
    if cur.strip():
        parts.append(cur)
    return parts


def _carray(shape):
    """a C array `T name[a][b]`: uninitialised storage of that shape (reading an element never written yields None, which no arithmetic accepts)"""
    import numpy as _np
    return _np.empty(shape, dtype=object)


# ----------------------------------------------------------------------------
# AST rewrites

class _FloatLiterals(ast.NodeTransformer):
    """float literal  ->  __pyvc_const__('<repr>')   (exact decimal reading)"""

    def visit_Constant(self, node):
        if isinstance(node.value, float):
            return ast.copy_location(
                ast.Call(func=ast.Name(id='__pyvc_const__', ctx=ast.Load()),
                         args=[ast.Constant(value=repr(node.value))], keywords=[]), node)
        return node

    def visit_JoinedStr(self, node):
        return self.generic_visit(node)

    def visit_arg(self, node):
        # leave annotations alone
        return node

    def visit_AnnAssign(self, node):
        if node.value is not None:
            node.value = self.visit(node.value)
        return node

    def visit_FunctionDef(self, node):
        node.args.defaults = [self.visit(d) for d in node.args.defaults]
        node.args.kw_defaults = [self.visit(d) if d is not None else None for d in node.args.kw_defaults]
        node.body = [self.visit(s) for s in node.body]
        node.decorator_list = [self.visit(d) for d in node.decorator_list]
        return node

    visit_AsyncFunctionDef = visit_FunctionDef

    def visit_MatchValue(self, node):
        return node


def _const_from_literal(s):
    from fractions import Fraction
    f = float(s)
    if f != f or f in (float('inf'), float('-inf')):
        return f
    return Sym(tm.const(Fraction(s), tm.R))


class _LoopCuts(ast.NodeTransformer):
    """Insert engine hooks for loops/statements named by a sidecar loop contract.

    spec: {function qualname: {loop ordinal (source order, 0-based): hookname}}
    A marked `for`/`while` loop  L  becomes
        __pyvc_loop__(hookname, 'enter', locals())      # may raise to abandon the path
        for ...:
            __pyvc_loop__(hookname, 'head', locals())
            body
            __pyvc_loop__(hookname, 'tail', locals())
        __pyvc_loop__(hookname, 'exit', locals())
    The hook functions live in the contract; they implement the havoc/assume/assert
    discipline of DESIGN 2.5 using the engine API.  Hooks can rebind locals only through
    mutable objects; for scalar locals the contract passes a dict returned by the
    hook which the rewritten code re-binds:   name = __pyvc_get__(hookname, 'name', name)
    """

    def __init__(self, spec):
        self.spec = spec
        self.stack = []
        self.counters = []

    def visit_ClassDef(self, node):
        self.stack.append(node.name)
        self.generic_visit(node)
        self.stack.pop()
        return node

    def visit_FunctionDef(self, node):
        self.stack.append(node.name)
        qn = '.'.join(self.stack)
        self.counters.append([qn, 0])
        self.generic_visit(node)
        self.counters.pop()
        self.stack.pop()
        return node

    def _loop(self, node):
        if not self.counters:
            return self.generic_visit(node)
        qn, k = self.counters[-1]
        self.counters[-1][1] += 1
        self.generic_visit(node)
        cfg = self.spec.get(qn, {}).get(k)
        if cfg is None:
            return node
        hook = cfg['hook']
        rebinding = cfg.get('rebind', [])

        def call(phase):
            stmts = [ast.Expr(ast.Call(func=ast.Name(id='__pyvc_loop__', ctx=ast.Load()),
                                       args=[ast.Constant(hook), ast.Constant(phase),
                                             ast.Call(func=ast.Name(id='locals', ctx=ast.Load()), args=[], keywords=[])],
                                       keywords=[]))]
            for nm in rebinding:
                stmts.append(ast.Assign(
                    targets=[ast.Name(id=nm, ctx=ast.Store())],
                    value=ast.Call(func=ast.Name(id='__pyvc_get__', ctx=ast.Load()),
                                   args=[ast.Constant(hook), ast.Constant(nm)], keywords=[])))
            return stmts
        node.body = call('head') + node.body + call('tail')
        new = call('enter') + [node] + call('exit')
        for s in new:
            ast.copy_location(s, node)
            ast.fix_missing_locations(s)
        return new

    visit_For = _loop
    visit_While = _loop


class _MergeIfs(ast.NodeTransformer):
    """State merging for simple conditionals (DESIGN 2.4).

        if TEST: BODY [else: ORELSE]
    whose arms only assign names / array elements (possibly inside for-range loops and nested simple ifs) becomes
        __g = __pyvc_guard__(TEST)            # True / False when concrete, else a Bool term wrapper
        if __g is True: BODY
        elif __g is False: ORELSE
        else:
            __pyvc_push__(__g, True);  BODY';   __pyvc_pop__()
            __pyvc_push__(__g, False); ORELSE'; __pyvc_pop__()
    Under a pushed guard, element stores into symbolic arrays write ite(guard, new, old) (SymArray.__setitem__) and the primed
    bodies have every name assignment  x = v  rewritten to  x = __pyvc_sel__(v, lambda: x).  Both arms are executed, so the
    result is the exact merge of the two paths; every guarded store is logged on the engine (E.guard_log)."""

    def __init__(self):
        self.n = 0

    @staticmethod
    def _simple(stmts):
        for st in stmts:
            if isinstance(st, ast.Pass):
                continue
            if isinstance(st, ast.Expr) and isinstance(st.value, ast.Constant):
                continue
            if isinstance(st, ast.Assign):
                if all(_MergeIfs._target_ok(t) for t in st.targets):
                    continue
                return False
            if isinstance(st, ast.AugAssign):
                if _MergeIfs._target_ok(st.target):
                    continue
                return False
            if isinstance(st, ast.For):
                if st.orelse or not isinstance(st.target, ast.Name):
                    return False
                it = st.iter
                if not (isinstance(it, ast.Call) and isinstance(it.func, ast.Name) and it.func.id == 'range'):
                    return False
                if not _MergeIfs._simple(st.body):
                    return False
                continue
            if isinstance(st, ast.If):
                if _MergeIfs._simple(st.body) and _MergeIfs._simple(st.orelse):
                    continue
                return False
            return False
        return True

    @staticmethod
    def _target_ok(t):
        if isinstance(t, ast.Name):
            return True
        if isinstance(t, ast.Subscript):
            return isinstance(t.value, ast.Name)
        if isinstance(t, ast.Tuple):
            return all(isinstance(e, ast.Name) for e in t.elts)
        return False

    def _prime(self, stmts):
        out = []
        for st in stmts:
            if isinstance(st, ast.Assign) and len(st.targets) == 1 and isinstance(st.targets[0], ast.Name):
                nm = st.targets[0].id
                st = ast.Assign(targets=[ast.Name(id=nm, ctx=ast.Store())],
                                value=ast.Call(func=ast.Name(id='__pyvc_sel__', ctx=ast.Load()),
                                               args=[st.value, ast.Lambda(args=ast.arguments(posonlyargs=[], args=[], kwonlyargs=[], kw_defaults=[], defaults=[]),
                                                                          body=ast.Name(id=nm, ctx=ast.Load()))], keywords=[]))
            elif isinstance(st, ast.Assign) and any(isinstance(t, (ast.Name, ast.Tuple)) for t in st.targets):
                raise _NoMerge()
            elif isinstance(st, ast.AugAssign) and isinstance(st.target, ast.Name):
                nm = st.target.id
                val = ast.BinOp(left=ast.Name(id=nm, ctx=ast.Load()), op=st.op, right=st.value)
                st = ast.Assign(targets=[ast.Name(id=nm, ctx=ast.Store())],
                                value=ast.Call(func=ast.Name(id='__pyvc_sel__', ctx=ast.Load()),
                                               args=[val, ast.Lambda(args=ast.arguments(posonlyargs=[], args=[], kwonlyargs=[], kw_defaults=[], defaults=[]),
                                                                     body=ast.Name(id=nm, ctx=ast.Load()))], keywords=[]))
            elif isinstance(st, ast.For):
                st = ast.For(target=st.target, iter=st.iter, body=self._prime(st.body), orelse=[])
            elif isinstance(st, ast.If):
                st = self.visit_If(ast.If(test=st.test, body=st.body, orelse=st.orelse), nested=True)
                if isinstance(st, list):
                    out.extend(st)
                    continue
            out.append(st)
        return out or [ast.Pass()]

    def visit_If(self, node, nested=False):
        if not nested:
            self.generic_visit(node)
        if not (self._simple(node.body) and self._simple(node.orelse)):
            return node
        import copy as _copy
        try:
            body_p = self._prime(_copy.deepcopy(node.body))
            else_p = self._prime(_copy.deepcopy(node.orelse)) if node.orelse else None
        except _NoMerge:
            return node
        self.n += 1
        g = '__pyvc_g%d' % self.n
        L = lambda i: ast.Name(id=i, ctx=ast.Load())
        call = lambda f, *a: ast.Expr(ast.Call(func=L(f), args=list(a), keywords=[]))
        assign = ast.Assign(targets=[ast.Name(id=g, ctx=ast.Store())], value=ast.Call(func=L('__pyvc_guard__'), args=[node.test], keywords=[]))
        merged = [call('__pyvc_push__', L(g), ast.Constant(True))] + body_p + [call('__pyvc_pop__')]
        if else_p is not None:
            merged += [call('__pyvc_push__', L(g), ast.Constant(False))] + else_p + [call('__pyvc_pop__')]
        inner = ast.If(test=ast.Compare(left=L(g), ops=[ast.Is()], comparators=[ast.Constant(False)]),
                       body=list(node.orelse) or [ast.Pass()], orelse=merged)
        outer = ast.If(test=ast.Compare(left=L(g), ops=[ast.Is()], comparators=[ast.Constant(True)]), body=list(node.body), orelse=[inner])
        new = [assign, outer]
        for st in new:
            ast.copy_location(st, node)
        return new


class _NoMerge(Exception):
    pass


# ----------------------------------------------------------------------------
# built-ins seen by re-instantiated modules

def _sym_min(*args, **kw):
    if len(args) == 1:
        args = tuple(args[0])
    key = kw.get('key')
    if key is not None or not any(isinstance(a, Sym) and not a.is_concrete() for a in args):
        if not args and 'default' in kw:
            return kw['default']
        return builtins.min(args, **({'key': key} if key else {}))
    r = args[0]
    for a in args[1:]:
        r = symnp._minimum(r, a)
    return r


def _sym_max(*args, **kw):
    if len(args) == 1:
        args = tuple(args[0])
    key = kw.get('key')
    if key is not None or not any(isinstance(a, Sym) and not a.is_concrete() for a in args):
        if not args and 'default' in kw:
            return kw['default']
        return builtins.max(args, **({'key': key} if key else {}))
    r = args[0]
    for a in args[1:]:
        r = symnp._maximum(r, a)
    return r


def make_builtins(import_hook):
    b = dict(vars(builtins))
    b['float'] = symnp.float_proxy
    b['int'] = symnp.int_proxy
    b['bool'] = symnp.bool_proxy
    b['min'] = _sym_min
    b['max'] = _sym_max
    b['__import__'] = import_hook
    return b


# ----------------------------------------------------------------------------
# the loader

class LazyPackage(object):
    """Stands for an atomman package: attribute access loads just the submodule that
    provides the name, as declared by the package's real __init__.py (parsed, not run)."""

    def __init__(self, loader, name, path):
        self.__dict__['_loader'] = loader
        self.__dict__['_name'] = name
        self.__dict__['_path'] = path
        self.__dict__['_exports'] = None
        self.__dict__['_stars'] = []
        self.__dict__['__name__'] = name
        self.__dict__['__path__'] = [path]

    def _parse_init(self):
        exports = {}
        stars = []
        init = os.path.join(self._path, '__init__.py')
        if os.path.exists(init):
            with open(init, encoding='utf-8') as f:
                tree = ast.parse(f.read())
            for node in tree.body:
                if isinstance(node, ast.ImportFrom) and node.level >= 1:
                    mod = node.module
                    for al in node.names:
                        if al.name == '*':
                            stars.append((node.level, mod))
                        else:
                            exports[al.asname or al.name] = (node.level, mod, al.name)
        self.__dict__['_exports'] = exports
        self.__dict__['_stars'] = stars

    def __getattr__(self, name):
        if name.startswith('__') and name.endswith('__'):
            raise AttributeError(name)
        L = self._loader
        full = self._name + '.' + name
        if full in L.overrides:
            return L.overrides[full]
        if self._exports is None:
            self._parse_init()
        if name in self._exports:
            level, mod, attr = self._exports[name]
            base = self._name if level == 1 else self._name.rsplit('.', level - 1)[0]
            if mod is None:
                if base + '.' + attr in L.overrides:
                    v = L.overrides[base + '.' + attr]
                elif L.exists(base + '.' + attr):
                    v = L.resolve(base + '.' + attr)
                else:
                    raise AttributeError(name)
            else:
                tgt = base + '.' + mod
                ov = tgt + '.' + attr
                if ov in L.overrides:
                    v = L.overrides[ov]
                else:
                    v = getattr(L.resolve(tgt), attr)
            self.__dict__[name] = v
            return v
        if L.exists(full):
            v = L.resolve(full)
            self.__dict__[name] = v
            return v
        for level, mod in self._stars:
            base = self._name if level == 1 else self._name.rsplit('.', level - 1)[0]
            m = L.resolve(base + '.' + mod)
            if hasattr(m, name):
                v = getattr(m, name)
                self.__dict__[name] = v
                return v
        # not an atomman-defined name: fall back to the installed package (third-party re-exports)
        real = __import__(self._name, fromlist=[name])
        return getattr(real, name)


class Loader(object):
    def __init__(self, repo=None, overrides=None, loopspec=None, native=(), merge=None):
        self.merge = merge            # None: merge simple ifs in .pyx files only; list of repo-relative paths otherwise
        self.repo = repo or REPO
        self.overrides = dict(overrides or {})
        self.loopspec = loopspec or {}
        self.native = set(native)     # dotted module names to import natively (real installed module)
        self.modules = {}
        self.files = {}               # relpath -> sha256
        self.cy2py_dropped = {}       # relpath -> list
        self.hooks = {}               # loop hook name -> callable(phase, locals)
        self.hookvals = {}
        self.builtins = make_builtins(self._import)

    # -- paths -------------------------------------------------------------------
    def _path_of(self, dotted):
        rel = dotted.replace('.', '/')
        for ext in ('.py', '.pyx'):
            p = os.path.join(self.repo, rel + ext)
            if os.path.isfile(p):
                return p, False
        p = os.path.join(self.repo, rel)
        if os.path.isdir(p):
            return p, True
        return None, False

    def exists(self, dotted):
        return self._path_of(dotted)[0] is not None

    def resolve(self, dotted):
        if dotted in self.overrides:
            return self.overrides[dotted]
        if dotted in self.modules:
            return self.modules[dotted]
        if dotted in self.native:
            __import__(dotted)
            return sys.modules[dotted]
        path, isdir = self._path_of(dotted)
        if path is None:
            raise ImportError('pyvc loader: no source for %s under %s' % (dotted, self.repo))
        if isdir:
            m = LazyPackage(self, dotted, path)
            self.modules[dotted] = m
            return m
        return self.load_file(dotted, path)

    def load(self, relpath):
        """load by repository-relative path, e.g. 'atomman/core/Box.py'"""
        dotted = re.sub(r'\.pyx?$', '', relpath).replace('/', '.')
        return self.resolve(dotted)

    def source_text(self, path):
        with open(path, encoding='utf-8') as f:
            text = f.read()
        rel = os.path.relpath(path, self.repo)
        self.files[rel] = hashlib.sha256(text.encode('utf-8')).hexdigest()
        if path.endswith('.pyx'):
            text, dropped = cy2py(text)
            self.cy2py_dropped[rel] = dropped
        return text

    def load_file(self, dotted, path):
        text = self.source_text(path)
        rel = os.path.relpath(path, self.repo)
        tree = ast.parse(text, filename=path)
        tree = _FloatLiterals().visit(tree)
        spec = self.loopspec.get(rel)
        if spec:
            tree = _LoopCuts(spec).visit(tree)
        if (self.merge is None and path.endswith('.pyx')) or (self.merge is not None and rel in self.merge):
            tree = _MergeIfs().visit(tree)
        ast.fix_missing_locations(tree)
        code = compile(tree, path, 'exec')
        mod = types.ModuleType(dotted)
        mod.__file__ = path
        mod.__package__ = dotted.rsplit('.', 1)[0]
        mod.__dict__['__builtins__'] = self.builtins
        mod.__dict__['__pyvc_const__'] = _const_from_literal
        mod.__dict__['__pyvc_carray__'] = _carray
        mod.__dict__['__pyvc_loop__'] = self._loop_hook
        mod.__dict__['__pyvc_get__'] = self._loop_get
        from . import engine as _eng
        mod.__dict__['__pyvc_guard__'] = _eng.guard_value
        mod.__dict__['__pyvc_push__'] = _eng.guard_push
        mod.__dict__['__pyvc_pop__'] = _eng.guard_pop
        mod.__dict__['__pyvc_sel__'] = _eng.guard_select
        self.modules[dotted] = mod
        try:
            exec(code, mod.__dict__)
        except BaseException:
            del self.modules[dotted]
            raise
        return mod

    # -- loop hooks -----------------------------------------------------------------
    def _loop_hook(self, name, phase, loc):
        h = self.hooks.get(name)
        if h is None:
            return
        r = h(phase, loc)
        self.hookvals[name] = r if isinstance(r, dict) else {}
        self.hookvals[name]['__locals__'] = loc

    def _loop_get(self, name, var):
        d = self.hookvals.get(name, {})
        if var in d:
            return d[var]
        return d['__locals__'][var]

    # -- import hook ----------------------------------------------------------------
    def _import(self, name, globals=None, locals=None, fromlist=(), level=0):
        if level > 0:
            pkg = globals.get('__package__') or globals['__name__'].rsplit('.', 1)[0]
            base = pkg if level == 1 else pkg.rsplit('.', level - 1)[0]
            absname = base + ('.' + name if name else '')
        else:
            absname = name
        top = absname.split('.')[0]
        if top == 'numpy':
            if absname in ('numpy', 'numpy.typing', 'numpy.linalg'):
                if fromlist and absname == 'numpy.linalg':
                    return symnp.linalg
                if fromlist and absname == 'numpy.typing':
                    import numpy.typing
                    return numpy.typing
                return symnp
            return builtins.__import__(name, globals, locals, fromlist, level)
        if top == 'cython':
            return _CythonStub()
        if top == 'atomman':
            if fromlist:
                return self.resolve(absname)
            if level == 0:
                # "import atomman.x.y" binds the top package; attribute walk resolves the rest
                return self.resolve('atomman')
            return self.resolve(absname)
        if absname in self.overrides:
            return self.overrides[absname]
        return builtins.__import__(name, globals, locals, fromlist, level)


class _CythonStub(object):
    def __getattr__(self, name):
        def deco(*a, **k):
            return lambda f: f
        return deco
