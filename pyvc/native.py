"""Access to the *native* package (real NumPy floats, compiled extensions) built from the tree under check.
Used by replay functions and bounded stand-ins.  When PYVC_REPO is a scratch copy, the compiled
extension modules of /repo are linked into it if absent (a .pyx mutation then needs a rebuild, see build_ext)."""
import glob
import importlib
import os
import subprocess
import sys

REPO = os.environ.get('PYVC_REPO', '/repo')
_loaded = [None]


def atomman():
    if _loaded[0] is not None:
        return _loaded[0]
    if os.path.realpath(REPO) != '/repo':
        for so in glob.glob('/repo/atomman/**/*.so', recursive=True):
            rel = os.path.relpath(so, '/repo')
            dst = os.path.join(REPO, rel)
            if not os.path.exists(dst):
                try:
                    os.symlink(so, dst)
                except OSError:
                    pass
        for k in [k for k in sys.modules if k == 'atomman' or k.startswith('atomman.')]:
            del sys.modules[k]
        sys.path.insert(0, REPO)
    import warnings
    with warnings.catch_warnings():
        warnings.simplefilter('ignore')
        am = importlib.import_module('atomman')
    _loaded[0] = am
    return am
