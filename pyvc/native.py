"""Access to the *native* package (real NumPy floats, compiled extensions) built from the tree under check.
Used by replay functions and bounded stand-ins.

The whole package is copied to a scratch directory outside /repo and /verif (one per source digest), the extensions are rebuilt there from
the current .pyx (`setup.py build_ext --inplace`), and the package is imported from that copy, so that native replays and bounded checks always
run the code under check and never a stale binary."""
import fcntl
import glob
import hashlib
import importlib
import json
import os
import shutil
import subprocess
import sys
import tempfile

REPO = os.environ.get('PYVC_REPO', '/repo')
_HERE = os.path.dirname(os.path.abspath(__file__))
_loaded = [None]


def _pyx_changed():
    base = json.load(open(os.path.join(_HERE, 'pyx_baseline.json')))
    cur = {}
    for f in sorted(glob.glob(os.path.join(REPO, 'atomman/**/*.pyx'), recursive=True)):
        cur[os.path.relpath(f, REPO)] = hashlib.sha256(open(f, 'rb').read()).hexdigest()
    return cur != base


def _source_digest():
    h = hashlib.sha256()
    for f in sorted(glob.glob(os.path.join(REPO, 'atomman/**/*.py*'), recursive=True)):
        if f.endswith(('.py', '.pyx')):
            h.update(os.path.relpath(f, REPO).encode())
            h.update(open(f, 'rb').read())
    return h.hexdigest()[:20]


def _rebuilt_copy():
    root = os.path.join(tempfile.gettempdir(), 'pyvc_ext')
    os.makedirs(root, exist_ok=True)
    d = os.path.join(root, _source_digest())
    lock = open(os.path.join(root, '.lock'), 'w')
    fcntl.flock(lock, fcntl.LOCK_EX)
    try:
        if not os.path.exists(os.path.join(d, '.built')):
            # keep at most six older builds, and never remove one that was used in the last half hour (a concurrent check of another tree may be importing from it)
            import time as _time
            old = sorted((x for x in glob.glob(os.path.join(root, '*')) if os.path.isdir(x)), key=os.path.getmtime)
            for x in old[:-6]:
                if _time.time() - os.path.getmtime(os.path.join(x, '.built') if os.path.exists(os.path.join(x, '.built')) else x) > 1800:
                    shutil.rmtree(x, ignore_errors=True)
            shutil.rmtree(d, ignore_errors=True)
            os.makedirs(d)
            subprocess.run(['rsync', '-a', '--exclude', '.git', '--exclude', 'doc', '--exclude', 'build', '--exclude', '*.so', '--exclude', '*.c',
                            '--exclude', 'tests', REPO.rstrip('/') + '/', d + '/'], check=True)
            r = subprocess.run(['/venv/bin/python', 'setup.py', 'build_ext', '--inplace', '-j', '8'], cwd=d, capture_output=True, text=True)
            if r.returncode != 0:
                raise RuntimeError('rebuilding the extensions from the current .pyx failed:\n' + r.stderr[-2000:])
            shutil.rmtree(os.path.join(d, 'build'), ignore_errors=True)
            open(os.path.join(d, '.built'), 'w').write('ok')
        else:
            try:
                os.utime(os.path.join(d, '.built'), None)          # mark as in use
            except OSError:
                pass
    finally:
        fcntl.flock(lock, fcntl.LOCK_UN)
        lock.close()
    return d


def atomman():
    if _loaded[0] is not None:
        return _loaded[0]
    # The compiled extensions lying in a tree say nothing about which .pyx text they were built from (they are ignored build outputs, and a scratch copy of a
    # changed tree carries the old binaries along), so they are never trusted: the package is always imported from a copy whose extensions were built from the
    # .pyx files of the tree under check (one build per source digest, cached under the system temp directory, guarded by a file lock).
    root = _rebuilt_copy()
    if os.path.realpath(root) != '/repo':
        for k in [k for k in sys.modules if k == 'atomman' or k.startswith('atomman.')]:
            del sys.modules[k]
        sys.path.insert(0, root)
    import warnings
    with warnings.catch_warnings():
        warnings.simplefilter('ignore')
        am = importlib.import_module('atomman')
    if os.path.realpath(os.path.dirname(os.path.dirname(am.__file__))) != os.path.realpath(root):
        raise RuntimeError('native atomman imported from %s, expected %s' % (am.__file__, root))
    _loaded[0] = am
    return am
