"""Mechanical extraction of a statement block of a real function, so that the block can be executed from an arbitrary (symbolic) state.

The extracted text IS the code that runs: the block is taken from the (cy2py-converted, for .pyx) AST of the file under check on every run, located by a structural
selector (not by line number), and compiled unchanged into

    def __block__(__state__):
        <free variable> = __state__['<free variable>']      # one line per name the block reads before writing
        <the block's statements, verbatim>
        return dict(locals())

inside the namespace of the module loaded by the Loader (so `np` is the facade and module-level helpers resolve as in the real function).
What the extraction drops: everything of the enclosing function outside the block (stated per use: the caller supplies an arbitrary state satisfying the block's
precondition instead), and for .pyx the C declarations listed by cy2py.  A block must not contain break/continue/return that leave it; this is checked."""
import ast
import builtins
import os

from . import loader as _loader


from .sym import LeftFragment


class BlockError(LeftFragment):
    """the block could not be located / is not self-contained in the current source: a limit of the extractor, never evidence about the code"""


def _names(node_list):
    loads, stores = [], []
    for n in node_list:
        for s in ast.walk(n):
            if isinstance(s, ast.Name):
                (stores if isinstance(s.ctx, (ast.Store, ast.Del)) else loads).append(s.id)
    return loads, stores


def _escapes(node_list):
    """break/continue not enclosed by a loop inside the block; return anywhere"""
    bad = []

    def visit(n, in_loop):
        if isinstance(n, ast.Return):
            bad.append(('return', n.lineno))
        if isinstance(n, (ast.Break, ast.Continue)) and not in_loop:
            bad.append((type(n).__name__.lower(), n.lineno))
        for field, value in ast.iter_fields(n):
            kids = value if isinstance(value, list) else [value]
            for c in kids:
                if isinstance(c, ast.AST):
                    if isinstance(n, (ast.For, ast.While)) and field in ('body',):
                        visit(c, True)
                    elif isinstance(n, (ast.FunctionDef, ast.Lambda)):
                        continue
                    else:
                        visit(c, in_loop)
    for n in node_list:
        visit(n, False)
    return bad


def find_function(tree, name):
    for n in ast.walk(tree):
        if isinstance(n, ast.FunctionDef) and n.name == name:
            return n
    raise BlockError('function %s not found' % name)


def select(fn, selector, nth=0):
    """first (nth) statement node of `fn` in source order for which selector(node) is true"""
    hits = [n for n in ast.walk(fn) if isinstance(n, ast.stmt) and selector(n)]
    hits.sort(key=lambda n: (n.lineno, n.col_offset))
    if len(hits) <= nth:
        raise BlockError('block selector matched %d statements' % len(hits))
    return hits[nth]


def extract(L, relpath, funcname, selector, nth=0, body_only=False):
    """returns (callable(state_dict) -> locals dict, info) for the selected statement (or its body when body_only)"""
    mod = L.load(relpath)
    path = os.path.join(L.repo, relpath)
    text = L.source_text(path)
    tree = ast.parse(text, filename=path)
    fn = find_function(tree, funcname)
    node = select(fn, selector, nth)
    stmts = node.body if body_only else [node]
    esc = _escapes(stmts)
    if esc:
        raise BlockError('block leaves itself through %r' % (esc,))
    loads, stores = _names(stmts)
    modnames = set(mod.__dict__) | set(dir(builtins))
    free = []
    for nm in loads:
        if nm not in free and nm not in modnames:
            free.append(nm)
    # names that are only ever stored inside the block and never read before being stored are not needed; but deciding "read before written" statically is
    # path dependent, so every loaded non-global name is taken from the state when present there, else left unbound (a NameError then shows a missing precondition)
    pro = []
    for nm in free:
        pro.append(ast.parse("if %r in __state__:\n    %s = __state__[%r]" % (nm, nm, nm)).body[0])
    ret = ast.parse("return dict(locals())").body[0]
    f = ast.FunctionDef(name='__block__', args=ast.arguments(posonlyargs=[], args=[ast.arg(arg='__state__')], kwonlyargs=[], kw_defaults=[], defaults=[]),
                        body=pro + stmts + [ret], decorator_list=[], type_params=[])
    m = ast.Module(body=[f], type_ignores=[])
    m = _loader._FloatLiterals().visit(m)
    ast.fix_missing_locations(m)
    ns = mod.__dict__
    code = compile(m, path + ':<block %s:%d>' % (funcname, node.lineno), 'exec')
    exec(code, ns)
    block = ns.pop('__block__')
    info = {'file': relpath, 'function': funcname, 'first_line': node.lineno, 'last_line': getattr(node, 'end_lineno', node.lineno), 'free_variables': free,
            'dropped': 'statements of %s outside lines %d-%d (the caller supplies an arbitrary state satisfying the stated precondition)' % (funcname, node.lineno,
                                                                                                                                         getattr(node, 'end_lineno', node.lineno))}
    return block, info


def extract_range(L, relpath, funcname, first_selector, last_selector):
    """like extract(), for the consecutive statements of one body from the first statement matching first_selector to the first later one matching last_selector"""
    mod = L.load(relpath)
    path = os.path.join(L.repo, relpath)
    text = L.source_text(path)
    tree = ast.parse(text, filename=path)
    fn = find_function(tree, funcname)
    first = select(fn, first_selector)
    body = None
    for n in ast.walk(fn):
        for field in ('body', 'orelse', 'finalbody'):
            b = getattr(n, field, None)
            if isinstance(b, list) and first in b:
                body = b
    if body is None:
        raise BlockError('first statement is not in a statement list')
    i0 = body.index(first)
    i1 = None
    for k in range(i0, len(body)):
        if last_selector(body[k]):
            i1 = k
            break
    if i1 is None:
        raise BlockError('last statement not found after the first one in the same body')
    stmts = body[i0:i1 + 1]
    esc = _escapes(stmts)
    if esc:
        raise BlockError('block leaves itself through %r' % (esc,))
    loads, stores = _names(stmts)
    modnames = set(mod.__dict__) | set(dir(builtins))
    free = []
    for nm in loads:
        if nm not in free and nm not in modnames:
            free.append(nm)
    pro = [ast.parse("if %r in __state__:\n    %s = __state__[%r]" % (nm, nm, nm)).body[0] for nm in free]
    ret = ast.parse("return dict(locals())").body[0]
    f = ast.FunctionDef(name='__block__', args=ast.arguments(posonlyargs=[], args=[ast.arg(arg='__state__')], kwonlyargs=[], kw_defaults=[], defaults=[]),
                        body=pro + stmts + [ret], decorator_list=[], type_params=[])
    m = ast.Module(body=[f], type_ignores=[])
    m = _loader._FloatLiterals().visit(m)
    ast.fix_missing_locations(m)
    ns = mod.__dict__
    code = compile(m, path + ':<block %s:%d-%d>' % (funcname, stmts[0].lineno, getattr(stmts[-1], 'end_lineno', stmts[-1].lineno)), 'exec')
    exec(code, ns)
    block = ns.pop('__block__')
    info = {'file': relpath, 'function': funcname, 'first_line': stmts[0].lineno, 'last_line': getattr(stmts[-1], 'end_lineno', stmts[-1].lineno), 'free_variables': free,
            'dropped': 'statements of %s outside lines %d-%d' % (funcname, stmts[0].lineno, getattr(stmts[-1], 'end_lineno', stmts[-1].lineno))}
    return block, info
