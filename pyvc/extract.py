"""Mechanical extraction of a statement block of a real function, so that the block can be executed from an arbitrary (symbolic) state.

The extracted text IS the code that runs: the block is taken from the (cy2py-converted, for .pyx) AST of the file under check on every run, located by a structural
selector (not by line number), and compiled unchanged into

    def __block__(__state__):
        <free variable> = __state__['<free variable>']      # one line per name the block reads before writing
        <the block's statements, verbatim>
        return dict(locals())

inside the namespace of the module loaded by the Loader (so `np` is the facade and module-level helpers resolve as in the real function).
What the extraction drops: everything of the enclosing function outside the block (stated per use: the caller supplies an arbitrary state satisfying the block's
precondition instead), and for .pyx the C declarations listed by cy2py.  A block must not contain break/continue/return that leave it; this is checked."""
import ast
import builtins
import os

from . import loader as _loader


from .sym import LeftFragment


class BlockError(LeftFragment):
    """the block could not be located / is not self-contained in the current source: a limit of the extractor, never evidence about the code"""


def _names(node_list):
    loads, stores = [], []
    for n in node_list:
        for s in ast.walk(n):
            if isinstance(s, ast.Name):
                (stores if isinstance(s.ctx, (ast.Store, ast.Del)) else loads).append(s.id)
    return loads, stores


def _escapes(node_list):
    """break/continue not enclosed by a loop inside the block; return anywhere"""
    bad = []

    def visit(n, in_loop):
        if isinstance(n, ast.Return):
            bad.append(('return', n.lineno))
        if isinstance(n, (ast.Break, ast.Continue)) and not in_loop:
            bad.append((type(n).__name__.lower(), n.lineno))
        for field, value in ast.iter_fields(n):
            kids = value if isinstance(value, list) else [value]
            for c in kids:
                if isinstance(c, ast.AST):
                    if isinstance(n, (ast.For, ast.While)) and field in ('body',):
                        visit(c, True)
                    elif isinstance(n, (ast.FunctionDef, ast.Lambda)):
                        continue
                    else:
                        visit(c, in_loop)
    for n in node_list:
        visit(n, False)
    return bad


def find_function(tree, name):
    for n in ast.walk(tree):
        if isinstance(n, ast.FunctionDef) and n.name == name:
            return n
    raise BlockError('function %s not found' % name)


def select(fn, selector, nth=0):
    """first (nth) statement node of `fn` in source order for which selector(node) is true"""
    hits = [n for n in ast.walk(fn) if isinstance(n, ast.stmt) and selector(n)]
    hits.sort(key=lambda n: (n.lineno, n.col_offset))
    if len(hits) <= nth:
        raise BlockError('block selector matched %d statements' % len(hits))
    return hits[nth]


def _defining_statement(fn, name, before_line):
    """the last simple assignment  name = <expr>  of the function that precedes the block (any nesting level), or None"""
    best = None
    for n in ast.walk(fn):
        if isinstance(n, ast.Assign) and len(n.targets) == 1 and isinstance(n.targets[0], ast.Name) and n.targets[0].id == name and n.end_lineno < before_line:
            if best is None or n.lineno > best.lineno:
                best = n
    return best


def _build(mod, path, fn, funcname, stmts, relpath):
    esc = _escapes(stmts)
    if esc:
        raise BlockError('block leaves itself through %r' % (esc,))
    loads, stores = _names(stmts)
    modnames = set(mod.__dict__) | set(dir(builtins))
    free = []
    for nm in loads:
        if nm not in free and nm not in modnames:
            free.append(nm)
    first_line = stmts[0].lineno
    last_line = getattr(stmts[-1], 'end_lineno', stmts[-1].lineno)
    info = {'file': relpath, 'function': funcname, 'first_line': first_line, 'last_line': last_line, 'free_variables': free, 'prelude': [],
            'dropped': 'statements of %s outside lines %d-%d (the caller supplies an arbitrary state satisfying the stated precondition; a variable the block only reads '
                       'and the caller does not supply is computed by the function\'s own preceding assignment to it, listed under prelude)' % (funcname, first_line, last_line)}
    cache = {}

    def compiled(keys):
        """the block preceded by the function's own defining assignments of the variables it only reads and that the state lacks (a backward slice over simple
        assignments, still the real statements)"""
        if keys in cache:
            return cache[keys]
        prelude = []
        have = set(keys)
        todo = [nm for nm in free if nm not in stores and nm not in have]
        seen = set()
        while todo:
            nm = todo.pop(0)
            if nm in seen or nm in have:
                continue
            seen.add(nm)
            d = _defining_statement(fn, nm, first_line)
            if d is None or _escapes([d]):
                continue            # left unbound: reading it ends the path as a limit of the harness (see block())
            prelude.append(d)
            l2, _s2 = _names([d.value])
            for x in l2:
                if x not in modnames and x not in have and x not in seen:
                    todo.append(x)
        prelude.sort(key=lambda n: n.lineno)
        pro = [ast.parse("if %r in __state__:\n    %s = __state__[%r]" % (nm, nm, nm)).body[0] for nm in list(free) + [x for x in seen if x not in free]
               + [x for d in prelude for x in _names([d.value])[0] if x not in modnames]]
        ret = ast.parse("return dict(locals())").body[0]
        f = ast.FunctionDef(name='__block__', args=ast.arguments(posonlyargs=[], args=[ast.arg(arg='__state__')], kwonlyargs=[], kw_defaults=[], defaults=[]),
                            body=pro + prelude + stmts + [ret], decorator_list=[], type_params=[])
        m = ast.Module(body=[f], type_ignores=[])
        m = _loader._FloatLiterals().visit(m)
        ast.fix_missing_locations(m)
        ns = mod.__dict__
        code = compile(m, path + ':<block %s:%d-%d>' % (funcname, first_line, last_line), 'exec')
        exec(code, ns)
        blk = ns.pop('__block__')
        for d in prelude:
            ln = '%s:%d %s' % (relpath, d.lineno, ast.unparse(d)[:120])
            if ln not in info['prelude']:
                info['prelude'].append(ln)
        cache[keys] = blk
        return blk

    def block(state):
        try:
            return compiled(frozenset(state))(state)
        except NameError as e:
            nm = getattr(e, 'name', None)
            if nm is not None and nm not in state and nm not in stores and nm not in modnames:
                # a variable the block only reads, which neither the harness nor a preceding simple assignment provides: nothing was learnt about the code
                raise BlockError('the block at %s:%d reads %r, which the harness does not supply' % (relpath, first_line, nm))
            raise
    return block, info


def extract(L, relpath, funcname, selector, nth=0, body_only=False):
    """returns (callable(state_dict) -> locals dict, info) for the selected statement (or its body when body_only)"""
    mod = L.load(relpath)
    path = os.path.join(L.repo, relpath)
    text = L.source_text(path)
    tree = ast.parse(text, filename=path)
    fn = find_function(tree, funcname)
    node = select(fn, selector, nth)
    stmts = node.body if body_only else [node]
    return _build(mod, path, fn, funcname, stmts, relpath)


def extract_range(L, relpath, funcname, first_selector, last_selector):
    """like extract(), for the consecutive statements of one body from the first statement matching first_selector to the first later one matching last_selector"""
    mod = L.load(relpath)
    path = os.path.join(L.repo, relpath)
    text = L.source_text(path)
    tree = ast.parse(text, filename=path)
    fn = find_function(tree, funcname)
    first = select(fn, first_selector)
    body = None
    for n in ast.walk(fn):
        for field in ('body', 'orelse', 'finalbody'):
            b = getattr(n, field, None)
            if isinstance(b, list) and first in b:
                body = b
    if body is None:
        raise BlockError('first statement is not in a statement list')
    i0 = body.index(first)
    i1 = None
    for k in range(i0, len(body)):
        if last_selector(body[k]):
            i1 = k
            break
    if i1 is None:
        raise BlockError('last statement not found after the first one in the same body')
    return _build(mod, path, fn, funcname, body[i0:i1 + 1], relpath)


def extract_between(L, relpath, funcname, after_selector, before_selector):
    """the consecutive statements of one body strictly between the last statement matching after_selector that precedes the first statement matching
    before_selector, and that statement: a block delimited by what surrounds it, whatever its own arrangement (loop nest, flat loop, helper call)"""
    mod = L.load(relpath)
    path = os.path.join(L.repo, relpath)
    text = L.source_text(path)
    tree = ast.parse(text, filename=path)
    fn = find_function(tree, funcname)
    last = select(fn, before_selector)
    body = None
    for n in ast.walk(fn):
        for field in ('body', 'orelse', 'finalbody'):
            b = getattr(n, field, None)
            if isinstance(b, list) and last in b:
                body = b
    if body is None:
        raise BlockError('closing statement is not in a statement list')
    i1 = body.index(last)
    i0 = None
    for k in range(i1 - 1, -1, -1):
        if after_selector(body[k]):
            i0 = k
            break
    if i0 is None or i0 + 1 >= i1:
        raise BlockError('no statements between the delimiting statements')
    return _build(mod, path, fn, funcname, body[i0 + 1:i1], relpath)
