"""NumPy facade: what `import numpy as np` resolves to inside re-instantiated
atomman modules.  Everything not overridden here is real NumPy operating on
object-dtype arrays whose elements are `Sym` (DESIGN 2.3)."""
import builtins as _bi
import operator as _op
import types as _types
from fractions import Fraction
import numpy as _np

from . import terms as tm
from .sym import Sym, LeftFragment, lift, realconst, get_engine, fn_sqrt, fn_arccos, fn_log, power as _tpower
from . import sym as _sym


# ----------------------------------------------------------------------------
# scalar helpers

def _lf(x):
    """lift Python/NumPy floats to exact Sym constants; leave the rest"""
    if isinstance(x, Sym):
        return x
    if isinstance(x, (complex, _np.complexfloating)):
        from .csym import CSym
        return CSym(float(x.real), float(x.imag))
    if isinstance(x, (float, _np.floating)):
        return realconst(float(x))
    if isinstance(x, Fraction):
        return realconst(x)
    if isinstance(x, _np.integer):
        return int(x)
    if isinstance(x, _np.bool_):
        return bool(x)
    return x


def _S(x):
    """any scalar -> Sym (complex symbolic scalars pass through: they implement the same method names)"""
    if isinstance(x, Sym) or getattr(x, '_pyvc_complex', False):
        return x
    t = lift(x)
    if t is None:
        raise LeftFragment('cannot lift %r' % (x,))
    return Sym(t)


def _is_sym_obj(x):
    return isinstance(x, Sym)


def _un(f_sym, f_native=None):
    def g(x):
        x = _lf(x)
        if isinstance(x, Sym):
            return f_sym(x)
        if f_native is not None:
            return f_native(x)
        return f_sym(_S(x))
    return g


def _bin(f):
    def g(a, b):
        return f(_lf(a), _lf(b))
    return g


def _s_abs(x): return _bi.abs(x)
def _s_sqrt(x): return Sym(fn_sqrt(x.t))
def _s_floor(x): return x.floor()
def _s_ceil(x): return x.ceil()
def _s_rint(x): return x.rint()
def _s_trunc(x): return Sym(tm.to_real(tm.trunc(x.t)))


def _s_sign(x):
    x = _S(x)
    z = tm.const(0, x.t.sort)
    return Sym(tm.ite(tm.gt(x.t, z), tm.const(1, x.t.sort), tm.ite(tm.lt(x.t, z), tm.const(-1, x.t.sort), z)))


def _minimum(a, b):
    a, b = _lf(a), _lf(b)
    if isinstance(a, Sym) or isinstance(b, Sym):
        return Sym(tm.min_(_S(a).t, _S(b).t))
    return min(a, b)


def _maximum(a, b):
    a, b = _lf(a), _lf(b)
    if isinstance(a, Sym) or isinstance(b, Sym):
        return Sym(tm.max_(_S(a).t, _S(b).t))
    return max(a, b)


def _land(a, b):
    a, b = _lf(a), _lf(b)
    if isinstance(a, Sym) or isinstance(b, Sym):
        return Sym(tm.and_(_S(a)._b(), _S(b)._b()))
    return bool(a) and bool(b)


def _lor(a, b):
    a, b = _lf(a), _lf(b)
    if isinstance(a, Sym) or isinstance(b, Sym):
        return Sym(tm.or_(_S(a)._b(), _S(b)._b()))
    return bool(a) or bool(b)


def _lnot(a):
    a = _lf(a)
    if isinstance(a, Sym):
        return Sym(tm.not_(a._b()))
    return not a


def _lxor(a, b):
    a, b = _lf(a), _lf(b)
    if isinstance(a, Sym) or isinstance(b, Sym):
        return _S(a) ^ _S(b)
    return bool(a) != bool(b)


def _pow(a, b):
    a, b = _lf(a), _lf(b)
    if isinstance(a, Sym) or isinstance(b, Sym):
        return Sym(_tpower(_S(a).t, _S(b).t))
    return a ** b


def _invert(a):
    a = _lf(a)
    if isinstance(a, Sym):
        return ~a
    if isinstance(a, bool):
        return not a
    return ~a


def _true(x): return True
def _false(x): return False


_PY = {
    _np.add: (_bin(_op.add), 2), _np.subtract: (_bin(_op.sub), 2), _np.multiply: (_bin(_op.mul), 2),
    _np.true_divide: (_bin(_op.truediv), 2), _np.floor_divide: (_bin(_op.floordiv), 2),
    _np.remainder: (_bin(_op.mod), 2), _np.power: (_pow, 2),
    _np.negative: (lambda x: -_lf(x), 1), _np.positive: (lambda x: _lf(x), 1),
    _np.absolute: (lambda x: _bi.abs(_lf(x)), 1), _np.fabs: (lambda x: _bi.abs(_lf(x)), 1),
    _np.sqrt: (lambda x: _s_sqrt(_S(x)), 1),
    _np.square: (lambda x: _lf(x) * _lf(x), 1),
    _np.reciprocal: (lambda x: 1 / _S(x), 1),
    _np.cos: (lambda x: _S(x).cos(), 1), _np.sin: (lambda x: _S(x).sin(), 1),
    _np.arccos: (lambda x: _S(x).arccos(), 1), _np.arcsin: (lambda x: _S(x).arcsin(), 1),
    _np.arctan: (lambda x: _S(x).arctan(), 1),
    _np.arctan2: (lambda y, x: Sym(tm.app('arctan2', (tm.to_real(_S(y).t), tm.to_real(_S(x).t)))), 2),
    _np.exp: (lambda x: _S(x).exp(), 1), _np.log: (lambda x: _S(x).log(), 1),
    _np.floor: (lambda x: _S(x).floor(), 1), _np.ceil: (lambda x: _S(x).ceil(), 1),
    _np.rint: (lambda x: _S(x).rint(), 1), _np.trunc: (lambda x: _s_trunc(_S(x)), 1),
    _np.sign: (_s_sign, 1),
    _np.less: (_bin(_op.lt), 2), _np.less_equal: (_bin(_op.le), 2),
    _np.greater: (_bin(_op.gt), 2), _np.greater_equal: (_bin(_op.ge), 2),
    _np.equal: (_bin(_op.eq), 2), _np.not_equal: (_bin(_op.ne), 2),
    _np.logical_and: (_land, 2), _np.logical_or: (_lor, 2), _np.logical_not: (_lnot, 1),
    _np.logical_xor: (_lxor, 2),
    _np.bitwise_and: (_bin(_op.and_), 2), _np.bitwise_or: (_bin(_op.or_), 2),
    _np.bitwise_xor: (_bin(_op.xor), 2), _np.invert: (_invert, 1),
    _np.minimum: (_minimum, 2), _np.maximum: (_maximum, 2),
    _np.fmin: (_minimum, 2), _np.fmax: (_maximum, 2),
    _np.conjugate: (lambda x: x, 1),
    _np.isfinite: (_true, 1), _np.isnan: (_false, 1), _np.isinf: (_false, 1),
}
_PYFUNC = {u: _np.frompyfunc(f, n, 1) for u, (f, n) in _PY.items()}
_BOOLRESULT = {_np.less, _np.less_equal, _np.greater, _np.greater_equal, _np.equal, _np.not_equal,
               _np.logical_and, _np.logical_or, _np.logical_not, _np.logical_xor,
               _np.isfinite, _np.isnan, _np.isinf}


def _has_sym(a):
    if isinstance(a, _np.ndarray):
        return a.dtype == object
    return isinstance(a, Sym)


def _scalarize(r):
    """NumPy returns scalars, not 0-d arrays, from full contractions"""
    if isinstance(r, _np.ndarray) and r.ndim == 0:
        return _lf(r.item()) if r.dtype == object else r[()]
    return r


def _tidy(r, boolish=False):
    """object results: wrap as SymArray; all-concrete boolean results -> native bool arrays"""
    if isinstance(r, _np.ndarray):
        if r.dtype == object:
            if boolish or r.size < 4096:
                flat = r.ravel()
                if boolish and _bi.all(isinstance(x, (bool, _np.bool_)) or (isinstance(x, Sym) and x.t.op == 'bconst') for x in flat):
                    return _np.array([bool(x) for x in flat], dtype=bool).reshape(r.shape).view(SymArray)
            if not isinstance(r, SymArray):
                r = r.view(SymArray)
        return r
    if boolish and isinstance(r, Sym) and r.t.op == 'bconst':
        return bool(r)
    return r


def _base(a):
    if isinstance(a, SymArray):
        return a.view(_np.ndarray)
    return a


class SymArray(_np.ndarray):
    """ndarray subclass; object-dtype instances hold Sym / int / bool elements"""

    def __array_finalize__(self, obj):
        pass

    def __array_ufunc__(self, ufunc, method, *inputs, out=None, **kwargs):
        ins = tuple(_base(x) for x in inputs)
        outs = None
        if out is not None:
            outs = tuple(_base(o) for o in out)
        symbolic = _bi.any(_has_sym(x) for x in ins) or (outs is not None and _bi.any(o.dtype == object for o in outs if o is not None))
        if not symbolic:
            if outs is not None:
                kwargs['out'] = outs
            r = getattr(ufunc, method)(*ins, **kwargs)
            if isinstance(r, _np.ndarray) and not isinstance(r, SymArray):
                r = r.view(SymArray)
            return r
        pf = _PYFUNC.get(ufunc)
        if pf is None:
            raise LeftFragment('ufunc %s on symbolic data is not modelled' % ufunc.__name__)
        kw = {k: v for k, v in kwargs.items() if k in ('axis', 'keepdims', 'initial', 'where')}
        if 'dtype' in kwargs and method != '__call__':
            pass
        if method in ('reduce', 'accumulate'):
            kw['dtype'] = object
            arr = ins[0]
            if arr.dtype != object:
                arr = arr.astype(object)
            if method == 'reduce' and arr.size == 0 and 'initial' not in kw:
                # identities of the native ufunc
                if ufunc.identity is None:
                    raise ValueError('zero-size array to reduction operation %s which has no identity' % ufunc.__name__)
                kw['initial'] = ufunc.identity
            ax = kwargs.get('axis', 0)
            if method == 'reduce' and (ax is None or isinstance(ax, tuple)) and arr.ndim > 1:
                kd = kw.pop('keepdims', False)
                kw.pop('axis', None)
                if ax is None:
                    r = pf.reduce(arr.ravel(), axis=0, **kw)
                    if kd:
                        r = _np.asarray(r, dtype=object).reshape((1,) * arr.ndim)
                else:
                    r = arr
                    for a1 in sorted([a % arr.ndim for a in ax], reverse=True):
                        r = pf.reduce(r, axis=a1, keepdims=kd, **kw)
            else:
                if ax is None:
                    kw['axis'] = 0
                    arr = arr.ravel()
                r = getattr(pf, method)(arr, **kw)
        elif method == '__call__':
            kw.pop('axis', None)
            r = pf(*ins)
            w = kwargs.get('where', True)
            if w is not True:
                raise LeftFragment('ufunc where= on symbolic data')
        elif method == 'outer':
            r = pf.outer(*ins)
        elif method == 'at':
            r = pf.at(*ins)
        else:
            raise LeftFragment('ufunc method %s' % method)
        r = _tidy(r, ufunc in _BOOLRESULT)
        if outs is not None and outs[0] is not None:
            o = outs[0]
            if o.dtype != object and isinstance(r, _np.ndarray) and r.dtype == object:
                raise LeftFragment('symbolic result written into a native %s array' % o.dtype)
            o[...] = r
            return out[0]
        return r

    # -- item access with symbolic masks ---------------------------------------
    def __getitem__(self, key):
        key = _fix_key(key)
        if _key_has_symmask(key):
            # a[mask] with a symbolic mask changes the shape; only the read-modify-write idiom  a[mask] op= v  is modelled:
            # the read yields a full-size placeholder that the following masked store turns into ite(mask, value, old)
            if isinstance(key, tuple):
                raise LeftFragment('symbolic mask inside a tuple index')
            return _MaskRead(_np.array(self.view(_np.ndarray), dtype=object, copy=True), key)
        r = _np.ndarray.__getitem__(self, key)
        return r

    def __setitem__(self, key, value):
        if isinstance(key, Sym) and key.t.sort == tm.B and not key.is_concrete():
            # a[cond] = v with a scalar symbolic condition: every element becomes ite(cond, v, old)
            if self.dtype != object:
                raise LeftFragment('symbolic mask on a native array')
            value = _lift_value(value)
            vb = _np.broadcast_to(_np.asarray(value, dtype=object), self.shape)
            base = self.view(_np.ndarray)
            for idx in _np.ndindex(self.shape):
                base[idx] = Sym(tm.ite(key.t, _S(vb[idx]).t, _S(base[idx]).t))
            return
        if isinstance(key, Sym) and key.t.sort == tm.B:
            key = bool(key.value())
        key = _fix_key(key)
        eng = get_engine()
        if eng is not None and eng.guard_stack:
            return self._guarded_assign(eng, key, value)
        if _key_has_symmask(key):
            return self._masked_assign(key, value)
        if self.dtype == object:
            value = _lift_value(value)
        elif _contains_sym(value):
            if self.dtype.kind in 'iu':
                # integer storage receiving a symbolic value
                raise LeftFragment('symbolic value stored into a native %s array' % self.dtype)
            raise LeftFragment('symbolic value stored into a native %s array' % self.dtype)
        _np.ndarray.__setitem__(self, key, value)

    def _guarded_assign(self, eng, key, value):
        """element store inside a merged conditional: a[key] = ite(guard, value, a[key])"""
        if _key_has_symmask(key):
            raise LeftFragment('masked store inside a merged conditional')
        g = tm.and_(*eng.guard_stack)
        if self.dtype != object:
            raise LeftFragment('store into a native %s array inside a merged conditional' % self.dtype)
        base = self.view(_np.ndarray)
        old = _np.ndarray.__getitem__(base, key)
        value = _lift_value(value)
        if isinstance(old, _np.ndarray):
            vb = _np.broadcast_to(_np.asarray(value, dtype=object), old.shape)
            new = _np.empty(old.shape, dtype=object)
            for idx in _np.ndindex(old.shape):
                new[idx] = select(g, vb[idx], old[idx])
                eng.guard_log.append((id(self), (key, idx), g, vb[idx], old[idx]))
            _np.ndarray.__setitem__(base, key, new)
        else:
            v = value.item() if isinstance(value, _np.ndarray) and value.ndim == 0 else value
            _np.ndarray.__setitem__(base, key, select(g, v, old))
            eng.guard_log.append((id(self), key, g, v, old))

    def _masked_assign(self, mask, value):
        if isinstance(mask, tuple):
            raise LeftFragment('symbolic mask inside a tuple index')
        mask = _np.asarray(mask)
        if mask.shape != self.shape[:mask.ndim]:
            raise IndexError('boolean index did not match indexed array')
        if self.dtype != object:
            raise LeftFragment('symbolic mask on a native array')
        if isinstance(value, _MaskRead):
            base = self.view(_np.ndarray)
            for idx in _np.ndindex(mask.shape):
                mt = _S(mask[idx])._b()
                if self.ndim > mask.ndim:
                    cur = base[idx]
                    for j in _np.ndindex(self.shape[mask.ndim:]):
                        cur[j] = select(mt, value.full[idx + j], cur[j])
                else:
                    base[idx] = select(mt, value.full[idx], base[idx])
            return
        value = _lift_value(value)
        varr = _np.asarray(value, dtype=object) if not isinstance(value, _np.ndarray) else value
        trailing = self.shape[mask.ndim:]
        if varr.ndim > len(trailing):
            raise LeftFragment('masked assignment of a per-selected-row value with symbolic mask')
        base = self.view(_np.ndarray)
        for idx in _np.ndindex(mask.shape):
            m = mask[idx]
            mt = _S(m)._b()
            cur = base[idx]
            if trailing:
                vb = _np.broadcast_to(varr, trailing)
                for j in _np.ndindex(trailing):
                    cur[j] = Sym(tm.ite(mt, _S(vb[j]).t, _S(cur[j]).t))
            else:
                v = varr if varr.ndim == 0 else varr
                base[idx] = Sym(tm.ite(mt, _S(v.item() if isinstance(v, _np.ndarray) else v).t, _S(cur).t))

    def astype(self, dtype, *a, **kw):
        return _astype(self, dtype)

    def __deepcopy__(self, memo):
        r = _np.array(self.view(_np.ndarray), copy=True, subok=False)
        return r.view(SymArray)

    def tolist(self):
        return _np.ndarray.tolist(self.view(_np.ndarray))

    def round(self, decimals=0, out=None):
        if self.dtype != object:
            return _np.ndarray.round(self, decimals, out)
        return _tidy(_np.frompyfunc(lambda x: _bi.round(_S(x), decimals) if decimals else _S(x).rint(), 1, 1)(self.view(_np.ndarray)))

    def mean(self, axis=None, **kw):
        if self.dtype != object:
            return _np.ndarray.mean(self, axis, **kw)
        n = self.size if axis is None else self.shape[axis]
        return self.sum(axis=axis) / n

    def dot(self, other):
        return dot(self, other)


def _fix_key(key):
    """concrete Sym integers used as indices -> int"""
    if isinstance(key, Sym):
        return key.__index__()
    if isinstance(key, tuple):
        return tuple(k.__index__() if isinstance(k, Sym) else k for k in key)
    return key


def _key_has_symmask(key):
    if isinstance(key, _np.ndarray) and key.dtype == object and key.size:
        flat = key.ravel()
        return _bi.any(isinstance(x, Sym) and x.t.sort == tm.B for x in flat)
    if isinstance(key, tuple):
        return _bi.any(_key_has_symmask(k) for k in key)
    if isinstance(key, Sym) and key.t.sort == tm.B:
        return True
    return False


def _contains_sym(v):
    if isinstance(v, Sym):
        return True
    if isinstance(v, _np.ndarray):
        return v.dtype == object and _bi.any(isinstance(x, Sym) for x in v.ravel())
    if isinstance(v, (list, tuple)):
        return _bi.any(_contains_sym(x) for x in v)
    return False


def _lift_value(v):
    """floats -> exact Sym constants in values stored into object arrays"""
    if isinstance(v, (float, _np.floating, Fraction)):
        return _lf(v)
    if isinstance(v, _np.ndarray):
        if v.dtype.kind == 'f':
            return _objectify(v)
        if v.dtype == object:
            return v
        return v
    if isinstance(v, (list, tuple)):
        try:
            return _mkarray(v, None)
        except Exception:
            return v
    return v


_liftfloats = _np.frompyfunc(_lf, 1, 1)


def _objectify(a):
    """native float array -> object array of exact Sym constants"""
    a = _np.asarray(a)
    if a.dtype == object:
        r = _liftfloats(a) if a.size else a
        r = _np.asarray(r, dtype=object)
        return r.view(SymArray)
    if a.dtype.kind == 'f':
        if a.ndim == 0:
            r = _np.empty((), dtype=object)
            r[()] = _lf(a.item())
            return r.view(SymArray)
        r = _liftfloats(a.astype(object)) if a.size else a.astype(object)
        return _np.asarray(r, dtype=object).view(SymArray)
    return a.view(SymArray) if not isinstance(a, SymArray) else a


# ----------------------------------------------------------------------------
# dtype handling

class _DTypeMeta(type):
    def __instancecheck__(cls, x):
        return cls._check(x)


def _mk_proxy(name, kind, real_type, checker):
    def _call(cls, x=0, *a, **k):
        if kind == 'f':
            return _to_real_scalar(x)
        if kind == 'i':
            return _to_int_scalar(x)
        if kind == 'b':
            if isinstance(x, Sym):
                return Sym(x._b())
            return bool(x)
        return real_type(x)
    ns = {'_kind': kind, '_real': real_type, '_check': staticmethod(checker),
          '__new__': _call}
    return _DTypeMeta(name, (object,), ns)


def _to_real_scalar(x):
    if isinstance(x, Sym):
        if x.t.sort == tm.B:
            return Sym(tm.to_real(tm.ite(x.t, tm.IONE, tm.IZERO)))
        return Sym(tm.to_real(x.t))
    if isinstance(x, str):
        s = x.strip()
        try:
            return realconst(Fraction(s))
        except ValueError:
            return realconst(float(s))
    if isinstance(x, _np.ndarray):
        if x.size != 1:
            raise TypeError('only length-1 arrays can be converted to Python scalars')
        return _to_real_scalar(x.ravel()[0])
    return realconst(x if not isinstance(x, (bool, _np.bool_)) else int(x))


def _to_int_scalar(x):
    if isinstance(x, Sym):
        if x.t.sort == tm.B:
            return Sym(tm.ite(x.t, tm.IONE, tm.IZERO))
        r = Sym(tm.trunc(x.t))
        if r.is_concrete():
            return int(r.value())
        return r
    if isinstance(x, _np.ndarray):
        if x.size != 1:
            raise TypeError('only length-1 arrays can be converted to Python scalars')
        return _to_int_scalar(x.ravel()[0])
    return _bi.int(x)


def _chk_float(x):
    return isinstance(x, (_bi.float, _np.floating)) or (isinstance(x, Sym) and x.t.sort == tm.R)


def _chk_int(x):
    return (isinstance(x, (_bi.int, _np.integer)) and not isinstance(x, (_bi.bool, _np.bool_))) or (isinstance(x, Sym) and x.t.sort == tm.I)


def _chk_pyint(x):
    return isinstance(x, _bi.int) or (isinstance(x, Sym) and x.t.sort == tm.I)


def _chk_bool(x):
    return isinstance(x, (_bi.bool, _np.bool_)) or (isinstance(x, Sym) and x.t.sort == tm.B)


def _chk_number(x):
    return isinstance(x, (_bi.int, _bi.float, _np.number)) or (isinstance(x, Sym) and x.t.sort != tm.B)


float_proxy = _mk_proxy('float', 'f', _bi.float, _chk_float)
int_proxy = _mk_proxy('int', 'i', _bi.int, _chk_pyint)
bool_proxy = _mk_proxy('bool', 'b', _bi.bool, _chk_bool)
float64 = _mk_proxy('float64', 'f', _np.float64, _chk_float)
float32 = _mk_proxy('float32', 'f', _np.float32, _chk_float)
floating = _mk_proxy('floating', 'f', _np.floating, _chk_float)
double = float64
float_ = float64
integer = _mk_proxy('integer', 'i', _np.integer, _chk_int)
signedinteger = integer
int64 = _mk_proxy('int64', 'i', _np.int64, _chk_int)
int32 = _mk_proxy('int32', 'i', _np.int32, _chk_int)
int_ = int64
intp = int64
bool_ = _mk_proxy('bool_', 'b', _np.bool_, _chk_bool)
number = _mk_proxy('number', 'n', _np.number, _chk_number)


def _kind(dtype):
    """'f' real, 'i' integer, 'b' bool, 'O' object, None unspecified, or the numpy dtype"""
    if dtype is None:
        return None
    if isinstance(dtype, _DTypeMeta):
        return dtype._kind
    if dtype is _bi.float:
        return 'f'
    if dtype is _bi.int:
        return 'i'
    if dtype is _bi.bool:
        return 'b'
    if dtype is object:
        return 'O'
    try:
        d = _np.dtype(dtype)
    except TypeError:
        raise LeftFragment('dtype %r is not a NumPy dtype the facade knows' % (dtype,))
    if d.kind == 'f':
        return 'f'
    if d.kind in 'iu':
        return 'i'
    if d.kind == 'b':
        return 'b'
    if d.kind == 'O':
        return 'O'
    if d.kind == 'c':
        return 'c'
    return d


def _astype(a, dtype):
    k = _kind(dtype)
    a = _np.asarray(a)
    if k == 'f':
        if a.dtype == object:
            r = _np.frompyfunc(_to_real_scalar, 1, 1)(a) if a.size else a.copy()
            return _np.asarray(r, dtype=object).view(SymArray)
        if a.dtype.kind in 'iub':
            r = _np.frompyfunc(lambda x: realconst(int(x)), 1, 1)(a.astype(object)) if a.size else a.astype(object)
            return _np.asarray(r, dtype=object).view(SymArray)
        if a.dtype.kind in 'US':
            r = _np.frompyfunc(_to_real_scalar, 1, 1)(a.astype(object)) if a.size else a.astype(object)
            return _np.asarray(r, dtype=object).view(SymArray)
        return _objectify(a)
    if k == 'i':
        if a.dtype == object:
            r = _np.frompyfunc(_to_int_scalar, 1, 1)(a) if a.size else a.copy()
            r = _np.asarray(r, dtype=object)
            if not _bi.any(isinstance(x, Sym) for x in r.ravel()):
                return _np.array(r.tolist(), dtype=_np.int64).reshape(r.shape).view(SymArray)
            return r.view(SymArray)
        return a.astype(_np.int64).view(SymArray)
    if k == 'b':
        if a.dtype == object:
            r = _np.frompyfunc(lambda x: Sym(_S(x)._b()) if isinstance(x, Sym) else bool(x), 1, 1)(a) if a.size else a.copy()
            return _tidy(_np.asarray(r, dtype=object), True)
        return a.astype(bool).view(SymArray)
    if k == 'O' or k is None:
        return _np.array(a, dtype=object, copy=True).view(SymArray) if k == 'O' else _np.array(a, copy=True).view(SymArray)
    if k == 'c':
        if a.dtype == object:
            return _np.array(a, copy=True).view(SymArray)
        return a.astype(complex)
    if a.dtype == object and _contains_sym(a):
        raise LeftFragment('astype(%s) on symbolic data' % (dtype,))
    return _np.ndarray.astype(a.view(_np.ndarray), k)


def _mkarray(obj, dtype, copy=True, ndmin=0):
    """np.array semantics with symbolic elements"""
    k = _kind(dtype)
    if isinstance(obj, Sym):
        r = _np.empty((), dtype=object)
        r[()] = obj
        base = r
    elif isinstance(obj, _np.ndarray):
        base = _np.array(obj.view(_np.ndarray), copy=copy) if copy else obj.view(_np.ndarray)
    else:
        if _nested_has_sym(obj):
            base = _np.array(_unwrap_arrays(obj), dtype=object)
        else:
            base = _np.array(obj) if k in (None, 'f', 'i', 'b', 'O', 'c') else _np.array(obj, dtype=k)
    if ndmin and base.ndim < ndmin:
        base = base.reshape((1,) * (ndmin - base.ndim) + base.shape)
    if k is None:
        if base.dtype.kind == 'f' or base.dtype == object:
            return _objectify(base)
        return base.view(SymArray)
    r = _astype(base, dtype) if (copy or base.dtype == object or _kind(base.dtype) != k) else base.view(SymArray)
    return r


def _nested_has_sym(obj):
    if isinstance(obj, Sym):
        return True
    if isinstance(obj, _np.ndarray):
        return obj.dtype == object
    if isinstance(obj, (list, tuple)):
        return _bi.any(_nested_has_sym(x) for x in obj)
    return False


def _unwrap_arrays(obj):
    """nested lists/tuples possibly containing object arrays -> nested lists"""
    if isinstance(obj, _np.ndarray):
        return obj.tolist()
    if isinstance(obj, (list, tuple)):
        return [_unwrap_arrays(x) for x in obj]
    return obj


# ----------------------------------------------------------------------------
# creation

def array(obj, dtype=None, copy=True, order=None, subok=False, ndmin=0, like=None):
    return _mkarray(obj, dtype, copy=True if copy is None else copy, ndmin=ndmin)


def asarray(obj, dtype=None, order=None, copy=None, like=None):
    k = _kind(dtype)
    if isinstance(obj, SymArray):
        if k is None:
            return obj
        if obj.dtype == object and k in ('f', 'O'):
            if k == 'O' or not _needs_real_cast(obj):
                return obj
        elif obj.dtype != object and _kind(obj.dtype) == k and k != 'f':
            return obj
    return _mkarray(obj, dtype, copy=False)


def _needs_real_cast(a):
    for x in a.ravel():
        if not (isinstance(x, Sym) and x.t.sort == tm.R):
            return True
    return False


asanyarray = asarray
ascontiguousarray = asarray


def _filled(shape, dtype, val, default_kind='f'):
    k = _kind(dtype)
    if k is None:
        k = default_kind
    if k == 'f':
        r = _np.empty(shape, dtype=object)
        r[...] = realconst(val) if val is not UNINIT else UNINIT
        return r.view(SymArray)
    if k == 'O':
        r = _np.empty(shape, dtype=object)
        r[...] = val
        return r.view(SymArray)
    if k == 'i':
        return _np.full(shape, 0 if val is UNINIT else val, dtype=_np.int64).view(SymArray)
    if k == 'b':
        return _np.full(shape, False if val is UNINIT else val, dtype=bool).view(SymArray)
    return _np.full(shape, 0 if val is UNINIT else val, dtype=k).view(SymArray)


class _Uninit(object):
    """contents of np.empty(): any arithmetic use is a read of uninitialised memory"""
    def __repr__(self):
        return 'UNINIT'

    def _bad(self, *a, **k):
        raise LeftFragment('read of uninitialised array element (np.empty)')
    __add__ = __radd__ = __sub__ = __rsub__ = __mul__ = __rmul__ = __truediv__ = __rtruediv__ = _bad
    __lt__ = __le__ = __gt__ = __ge__ = __neg__ = __abs__ = __float__ = __int__ = __bool__ = _bad
    sqrt = cos = sin = _bad

    def __deepcopy__(self, memo):
        return self


UNINIT = _Uninit()


def _shape(s):
    if isinstance(s, Sym):
        return (s.__index__(),)
    if isinstance(s, (list, tuple)):
        return tuple(x.__index__() if isinstance(x, Sym) else _bi.int(x) for x in s)
    return (_bi.int(s),)


def zeros(shape, dtype=None, order='C', like=None): return _filled(_shape(shape), dtype, 0)
def ones(shape, dtype=None, order='C', like=None): return _filled(_shape(shape), dtype, 1)
def empty(shape, dtype=None, order='C', like=None): return _filled(_shape(shape), dtype, UNINIT)


def full(shape, fill_value, dtype=None, order='C', like=None):
    if dtype is None:
        dtype = 'O' if isinstance(fill_value, (Sym, float)) else _np.asarray(fill_value).dtype
        if dtype == 'O':
            r = _np.empty(_shape(shape), dtype=object)
            r[...] = _lf(fill_value)
            return r.view(SymArray)
    return _filled(_shape(shape), dtype, fill_value)


def _like_kind(a, dtype):
    if dtype is not None:
        return dtype
    a = _np.asarray(a) if not isinstance(a, _np.ndarray) else a
    return 'f' if a.dtype == object else a.dtype


def zeros_like(a, dtype=None, **kw):
    if dtype is not None and _kind(dtype) == 'i' and isinstance(a, _np.ndarray) and a.dtype == object and _contains_sym(a):
        # an integer array shaped like symbolic data usually receives values computed from it (floor, round): object storage of ints
        r = _np.empty(_np.shape(a), dtype=object)
        r[...] = 0
        return r.view(SymArray)
    return _filled(_np.shape(a), _like_kind(a, dtype), 0)
def ones_like(a, dtype=None, **kw): return _filled(_np.shape(a), _like_kind(a, dtype), 1)
def empty_like(a, dtype=None, **kw): return _filled(_np.shape(a), _like_kind(a, dtype), UNINIT)
def full_like(a, v, dtype=None, **kw): return _filled(_np.shape(a), _like_kind(a, dtype), v)


def eye(N, M=None, k=0, dtype=None, **kw):
    return _mkarray(_np.eye(N, M, k), dtype if dtype is not None else 'f')


def identity(n, dtype=None, **kw):
    return eye(n, dtype=dtype)


def linspace(*a, **k):
    r = _np.linspace(*[float(x) if isinstance(x, Sym) and x.is_concrete() else x for x in a], **k)
    if isinstance(r, tuple):
        return (_objectify(r[0]),) + r[1:]
    return _objectify(r)


def arange(*a, **k):
    a = [(_bi.int(x.value()) if x.t.sort == tm.I else float(x.value())) if isinstance(x, Sym) and x.is_concrete() else x for x in a]
    dt = k.pop('dtype', None)
    r = _np.arange(*a, **k)
    if dt is not None:
        return _astype(r, dt)
    if r.dtype.kind == 'f':
        return _objectify(r)
    return r.view(SymArray)


def copy(a, **kw):
    return _mkarray(a, None, copy=True)


# ----------------------------------------------------------------------------
# element-wise mathematics

def _elementwise(ufunc):
    pf = _PYFUNC[ufunc]
    f, n = _PY[ufunc]

    def g(*args, **kw):
        args = [_np.asarray(a) if isinstance(a, (list, tuple)) else a for a in args[:n]]
        if not _bi.any(isinstance(a, _np.ndarray) for a in args):
            r = f(*args)
            return _tidy(r, ufunc in _BOOLRESULT)
        args = [_base(a) for a in args]
        if not _bi.any(_has_sym(a) for a in args) and not _bi.any(isinstance(a, _np.ndarray) and a.dtype.kind == 'f' for a in args):
            return ufunc(*args, **kw)
        r = pf(*[_objectify(a).view(_np.ndarray) if isinstance(a, _np.ndarray) and a.dtype.kind == 'f' else a for a in args])
        return _tidy(r, ufunc in _BOOLRESULT)
    g.__name__ = ufunc.__name__
    g.reduce = lambda a, **kw: SymArray.__array_ufunc__(asarray(a), ufunc, 'reduce', asarray(a), **kw)
    g.outer = lambda a, b, **kw: SymArray.__array_ufunc__(asarray(a), ufunc, 'outer', asarray(a), asarray(b), **kw)
    return g


sqrt = _elementwise(_np.sqrt)
cos = _elementwise(_np.cos)
sin = _elementwise(_np.sin)
arccos = _elementwise(_np.arccos)
arcsin = _elementwise(_np.arcsin)
arctan = _elementwise(_np.arctan)
arctan2 = _elementwise(_np.arctan2)
exp = _elementwise(_np.exp)
log = _elementwise(_np.log)
floor = _elementwise(_np.floor)
ceil = _elementwise(_np.ceil)
rint = _elementwise(_np.rint)
trunc = _elementwise(_np.trunc)
sign = _elementwise(_np.sign)
absolute = _elementwise(_np.absolute)
abs = absolute
fabs = absolute
square = _elementwise(_np.square)
power = _elementwise(_np.power)
minimum = _elementwise(_np.minimum)
maximum = _elementwise(_np.maximum)
logical_and = _elementwise(_np.logical_and)
logical_or = _elementwise(_np.logical_or)
logical_not = _elementwise(_np.logical_not)
logical_xor = _elementwise(_np.logical_xor)
add = _elementwise(_np.add)
subtract = _elementwise(_np.subtract)
multiply = _elementwise(_np.multiply)
divide = _elementwise(_np.true_divide)
true_divide = divide
less = _elementwise(_np.less)
greater = _elementwise(_np.greater)
equal = _elementwise(_np.equal)
not_equal = _elementwise(_np.not_equal)
isnan = _elementwise(_np.isnan)
isfinite = _elementwise(_np.isfinite)
isinf = _elementwise(_np.isinf)
negative = _elementwise(_np.negative)
mod = _elementwise(_np.remainder)
remainder = mod
floor_divide = _elementwise(_np.floor_divide)


def tan(x):
    return sin(x) / cos(x)


def radians(x):
    return x * pi / 180


def degrees(x):
    return x * 180 / pi


deg2rad = radians
rad2deg = degrees

pi = Sym(tm.var('pi'))


def round(a, decimals=0, out=None):
    if isinstance(a, _np.ndarray):
        return asarray(a).round(decimals)
    a = _lf(a)
    if isinstance(a, Sym):
        return _bi.round(a, decimals) if decimals else a.rint()
    return _np.round(a, decimals)


around = round


def isclose(a, b, rtol=1e-05, atol=1e-08, equal_nan=False):
    a = asarray(a) if isinstance(a, (list, tuple, _np.ndarray)) else _lf(a)
    b = asarray(b) if isinstance(b, (list, tuple, _np.ndarray)) else _lf(b)
    if not (_has_sym(a) or _has_sym(b)):
        return _np.isclose(_base(a), _base(b), rtol=rtol, atol=atol, equal_nan=equal_nan)
    rt, at = _lf(rtol), _lf(atol)
    r = abs(a - b) <= at + rt * abs(b)
    return _tidy(r, True)


def allclose(a, b, rtol=1e-05, atol=1e-08, equal_nan=False):
    return all(isclose(a, b, rtol=rtol, atol=atol, equal_nan=equal_nan))


def all(a, axis=None, **kw):
    if isinstance(a, Sym):
        return Sym(a._b()) if not a.is_concrete() else bool(a)
    a = asarray(a)
    if a.dtype != object:
        return _np.all(_base(a), axis=axis, **kw)
    return _tidy(logical_and.reduce(a, axis=axis, **kw), True)


def any(a, axis=None, **kw):
    if isinstance(a, Sym):
        return Sym(a._b()) if not a.is_concrete() else bool(a)
    a = asarray(a)
    if a.dtype != object:
        return _np.any(_base(a), axis=axis, **kw)
    return _tidy(logical_or.reduce(a, axis=axis, **kw), True)


alltrue = all


def where(cond, x=None, y=None):
    if x is None and y is None:
        c = asarray(cond)
        if c.dtype == object and _contains_sym(c):
            raise LeftFragment('np.where(cond) with a symbolic condition changes the shape')
        return _np.where(_base(c).astype(bool) if c.dtype == object else _base(c))
    c = asarray(cond)
    xa, ya = asarray(x), asarray(y)
    if not (_has_sym(c) or _has_sym(xa) or _has_sym(ya)):
        return _np.where(_base(c), _base(xa), _base(ya)).view(SymArray)

    def f(cc, xx, yy):
        cc = _lf(cc)
        if isinstance(cc, Sym):
            return Sym(tm.ite(cc._b(), _S(xx).t, _S(yy).t))
        return _lf(xx) if cc else _lf(yy)
    return _tidy(_np.frompyfunc(f, 3, 1)(_base(c), _base(xa), _base(ya)))


def clip(a, a_min=None, a_max=None, **kw):
    r = a
    if a_min is not None:
        r = maximum(r, a_min)
    if a_max is not None:
        r = minimum(r, a_max)
    return r


def real_if_close(a, tol=100):
    return a


def max(a, axis=None, **kw):
    return asarray(a).max(axis=axis, **kw)


def min(a, axis=None, **kw):
    return asarray(a).min(axis=axis, **kw)


amax = max
amin = min


def sum(a, axis=None, **kw):
    return asarray(a).sum(axis=axis, **kw)


def prod(a, axis=None, **kw):
    return asarray(a).prod(axis=axis, **kw)


def mean(a, axis=None, **kw):
    return asarray(a).mean(axis=axis, **kw)


# ----------------------------------------------------------------------------
# linear algebra

def cross(a, b, axis=-1, **kw):
    a, b = asarray(a), asarray(b)
    if not (_has_sym(a) or _has_sym(b)):
        return _np.cross(_base(a), _base(b), axis=axis, **kw).view(SymArray)
    if a.shape[-1] != 3 or b.shape[-1] != 3 or axis != -1:
        raise LeftFragment('cross product of non-3-vectors')
    a0, a1, a2 = a[..., 0], a[..., 1], a[..., 2]
    b0, b1, b2 = b[..., 0], b[..., 1], b[..., 2]
    return stack([a1 * b2 - a2 * b1, a2 * b0 - a0 * b2, a0 * b1 - a1 * b0], axis=-1)


def stack(arrays, axis=0, **kw):
    arrays = [asarray(x) for x in arrays]
    if _bi.any(x.dtype == object for x in arrays):
        arrays = [_objectify(x) if x.dtype.kind == 'f' else x for x in arrays]
        return _np.stack([_base(x).astype(object) if x.dtype != object else _base(x) for x in arrays], axis=axis).view(SymArray)
    return _np.stack([_base(x) for x in arrays], axis=axis, **kw).view(SymArray)


def dot(a, b, out=None):
    a, b = asarray(a), asarray(b)
    if not (_has_sym(a) or _has_sym(b)):
        return _wrap(_np.dot(_base(a), _base(b)))
    a = _objectify(a) if a.dtype != object else a
    b = _objectify(b) if b.dtype != object else b
    return _scalarize(_tidy(_np.dot(_base(a).astype(object), _base(b).astype(object))))


def inner(a, b):
    a, b = asarray(a), asarray(b)
    if not (_has_sym(a) or _has_sym(b)):
        return _wrap(_np.inner(_base(a), _base(b)))
    a = _objectify(a) if a.dtype != object else a
    b = _objectify(b) if b.dtype != object else b
    return _scalarize(_tidy(_np.inner(_base(a).astype(object), _base(b).astype(object))))


def outer(a, b):
    a, b = asarray(a), asarray(b)
    return multiply.outer(a.ravel(), b.ravel()) if (_has_sym(a) or _has_sym(b)) else _wrap(_np.outer(_base(a), _base(b)))


def matmul(a, b):
    a, b = asarray(a), asarray(b)
    if a.ndim <= 2 and b.ndim <= 2:
        return dot(a, b)
    raise LeftFragment('matmul with ndim > 2')


def einsum(subscripts, *operands, **kw):
    ops = [asarray(o) for o in operands]
    if not _bi.any(_has_sym(o) for o in ops):
        return _wrap(_np.einsum(subscripts, *[_base(o) for o in ops], **kw))
    ops = [_base(_objectify(o) if o.dtype != object else o).astype(object) for o in ops]
    return _scalarize(_tidy(_np.einsum(subscripts, *ops)))


def tensordot(a, b, axes=2):
    a, b = asarray(a), asarray(b)
    if not (_has_sym(a) or _has_sym(b)):
        return _wrap(_np.tensordot(_base(a), _base(b), axes))
    a = _base(_objectify(a) if a.dtype != object else a).astype(object)
    b = _base(_objectify(b) if b.dtype != object else b).astype(object)
    return _scalarize(_tidy(_np.tensordot(a, b, axes)))


def _det(m):
    n = m.shape[-1]
    if n == 1:
        return m[..., 0, 0]
    if n == 2:
        return m[..., 0, 0] * m[..., 1, 1] - m[..., 0, 1] * m[..., 1, 0]
    if n == 3:
        return (m[..., 0, 0] * (m[..., 1, 1] * m[..., 2, 2] - m[..., 1, 2] * m[..., 2, 1])
                - m[..., 0, 1] * (m[..., 1, 0] * m[..., 2, 2] - m[..., 1, 2] * m[..., 2, 0])
                + m[..., 0, 2] * (m[..., 1, 0] * m[..., 2, 1] - m[..., 1, 1] * m[..., 2, 0]))
    raise LeftFragment('determinant of a symbolic %dx%d matrix' % (n, n))


class _Linalg(object):
    LinAlgError = _np.linalg.LinAlgError

    def __getattr__(self, name):
        f = getattr(_np.linalg, name)
        if callable(f):
            return _generic(f, 'linalg.' + name)
        return f

    @staticmethod
    def norm(x, ord=None, axis=None, keepdims=False):
        x = asarray(x)
        if not _has_sym(x):
            return _wrap(_np.linalg.norm(_base(x), ord=ord, axis=axis, keepdims=keepdims))
        if ord not in (None, 2, 'fro'):
            raise LeftFragment('norm ord=%r' % (ord,))
        s = (x * x).sum(axis=axis, keepdims=keepdims)
        return sqrt(s)

    @staticmethod
    def det(m):
        m = asarray(m)
        if not _has_sym(m):
            return _wrap(_np.linalg.det(_base(m)))
        return _det(m)

    @staticmethod
    def inv(m):
        m = asarray(m)
        if not _has_sym(m):
            return _wrap(_np.linalg.inv(_base(m)))
        eng = get_engine()
        hook = getattr(eng, 'inv_hook', None) if eng is not None else None
        if hook is not None:
            r = hook(m)
            if r is not None:
                return r
        n = m.shape[-1]
        if m.ndim != 2 or m.shape[0] != n or n > 3:
            raise LeftFragment('inverse of a symbolic %s matrix (no contract installed)' % (m.shape,))
        d = _det(m)
        if n == 1:
            return array([[1 / d]])
        if n == 2:
            return array([[m[1, 1] / d, -m[0, 1] / d], [-m[1, 0] / d, m[0, 0] / d]])
        c = [[None] * 3 for _ in range(3)]
        for i in range(3):
            for j in range(3):
                i1, i2 = [k for k in range(3) if k != i]
                j1, j2 = [k for k in range(3) if k != j]
                minor = m[i1, j1] * m[i2, j2] - m[i1, j2] * m[i2, j1]
                c[j][i] = (minor if (i + j) % 2 == 0 else -minor) / d
        return array(c)

    @staticmethod
    def solve(a, b):
        return dot(_Linalg.inv(a), b)

    @staticmethod
    def lstsq(a, b, rcond=None):
        """numpy.linalg.lstsq on symbolic data.
        square invertible a (n <= 3): the unique solution inv(a).b (definition; det != 0 is a side obligation of the division);
        zero right-hand side: zero; otherwise an ASSUMED contract (DESIGN 3.4): a fresh X satisfying the normal equations a^T a X = a^T b."""
        a, b = asarray(a), asarray(b)
        if not (_has_sym(a) or _has_sym(b)):
            r = _np.linalg.lstsq(_base(a), _base(b), rcond=rcond)
            return (_wrap(r[0]),) + tuple(r[1:])
        if a.ndim != 2:
            raise LeftFragment('lstsq of a non-matrix')
        zero_rhs = _bi.all((isinstance(x, Sym) and x.is_concrete() and x.value() == 0) or (not isinstance(x, Sym) and x == 0) for x in _np.asarray(b, dtype=object).ravel())
        if zero_rhs:
            return (zeros((a.shape[1],) + b.shape[1:]), None, None, None)
        if a.shape[0] == a.shape[1] and a.shape[0] <= 3:
            return (dot(_Linalg.inv(a), b), None, None, None)
        eng = get_engine()
        if eng is None:
            raise LeftFragment('lstsq on symbolic data outside an engine run')
        eng.note('assumed contract used: numpy.linalg.lstsq (normal equations a^T a X = a^T b)')
        X = eng.reals('lstsq%d' % (len(eng.notes)), (a.shape[1],) + b.shape[1:])
        lhs = dot(dot(a.T, a), X)
        rhs = dot(a.T, b)
        for l_, r_ in zip(_np.asarray(lhs, dtype=object).ravel(), _np.asarray(rhs, dtype=object).ravel()):
            eng.assume(_S(l_) == _S(r_))
        return (X, None, None, None)


linalg = _Linalg()


# ----------------------------------------------------------------------------
# generic fall-through to real NumPy

def _wrap(r):
    if isinstance(r, _np.ndarray):
        if r.dtype.kind == 'f':
            return _objectify(r)
        if not isinstance(r, SymArray):
            return r.view(SymArray)
        return r
    if isinstance(r, (_np.floating,)):
        return _lf(r)
    if isinstance(r, tuple):
        return tuple(_wrap(x) for x in r)
    if isinstance(r, list):
        return [_wrap(x) for x in r]
    return r


def _unproxy(x):
    if isinstance(x, _DTypeMeta):
        return object if x._kind == 'f' else x._real
    return x


def _generic(f, name):
    def g(*a, **k):
        a = [_unproxy(x) for x in a]
        k = {kk: _unproxy(v) for kk, v in k.items()}
        if 'dtype' in k and k['dtype'] in (_bi.float, 'float', 'float64', _np.float64):
            if _bi.any(_nested_has_sym(x) for x in a):
                k['dtype'] = object
        r = f(*a, **k)
        return _wrap_light(r)
    g.__name__ = name
    g.__wrapped__ = f
    return g


def _wrap_light(r):
    """results of un-modelled numpy functions: keep values, make object arrays SymArrays"""
    if isinstance(r, _np.ndarray):
        if r.dtype == object and not isinstance(r, SymArray):
            return r.view(SymArray)
        if r.dtype.kind == 'f':
            return _objectify(r)
        if not isinstance(r, SymArray):
            return r.view(SymArray)
        return r
    if isinstance(r, tuple):
        return tuple(_wrap_light(x) for x in r)
    if isinstance(r, list):
        return [_wrap_light(x) for x in r]
    if isinstance(r, _np.floating):
        return _lf(r)
    return r


class _MaskRead(object):
    """result of a[mask] with a symbolic mask inside the idiom  a[mask] op= v : holds full-size values"""

    def __init__(self, full, mask):
        self.full = full
        self.mask = mask

    def _op(self, other, f):
        o = other.full if isinstance(other, _MaskRead) else other
        return _MaskRead(_np.asarray(f(self.full.view(SymArray), o), dtype=object), self.mask)

    def __add__(self, o): return self._op(o, lambda a, b: a + b)
    def __radd__(self, o): return self._op(o, lambda a, b: b + a)
    def __sub__(self, o): return self._op(o, lambda a, b: a - b)
    def __rsub__(self, o): return self._op(o, lambda a, b: b - a)
    def __mul__(self, o): return self._op(o, lambda a, b: a * b)
    def __rmul__(self, o): return self._op(o, lambda a, b: b * a)
    def __truediv__(self, o): return self._op(o, lambda a, b: a / b)
    __iadd__ = __add__
    __isub__ = __sub__
    __imul__ = __mul__
    __itruediv__ = __truediv__


def select(g, a, b):
    """ite(g, a, b) for scalars (g a Bool term)"""
    if a is b:
        return a
    if isinstance(a, _Uninit) or isinstance(b, _Uninit):
        if isinstance(a, _Uninit) and isinstance(b, _Uninit):
            return a
        raise LeftFragment('merge of an initialised and an uninitialised value')
    ta, tb = lift(_lf(a)), lift(_lf(b))
    if ta is None or tb is None:
        if a == b:
            return a
        raise LeftFragment('merge of non-numeric values %r / %r' % (a, b))
    return Sym(tm.ite(g, ta, tb))


class _LcmGcd(object):
    """np.lcm / np.gcd as ASSUMED dependency contracts on symbolic integers (DESIGN 3.4).
    lcm(x1..xn) = m:  m >= 0,  m == x_i * q_i with integer q_i,  (all x_i != 0  =>  m > 0)
    gcd(x1..xn) = g:  g >= 0,  x_i == g * r_i with integer r_i,  (some x_i != 0  =>  g > 0),
                      Bezout: g == sum c_i * x_i for integers c_i   (so the r_i are coprime)
    Minimality of the lcm is not asserted (not needed by the obligations that use it).
    Concrete arguments go to real NumPy."""

    def __init__(self, kind):
        self.kind = kind
        self.native = getattr(_np, kind)

    def __call__(self, a, b, **kw):
        if not (_contains_sym(a) or _contains_sym(b)):
            return self.native(a, b, **kw)
        return self._one([a, b])

    def reduce(self, xs, axis=0, **kw):
        arr = _np.asarray(xs, dtype=object) if _contains_sym(xs) else _np.asarray(xs)
        if arr.dtype != object:
            return self.native.reduce(arr, axis=axis, **kw)
        if arr.ndim == 1:
            return self._one(list(arr))
        ax = axis % arr.ndim
        moved = _np.moveaxis(arr, ax, -1)
        out = _np.empty(moved.shape[:-1], dtype=object)
        for idx in _np.ndindex(*out.shape):
            out[idx] = self._one(list(moved[idx]))
        return out.view(SymArray)

    def _one(self, xs):
        eng = get_engine()
        xs = [_S(_lf(x)) for x in xs]
        for x in xs:
            if x.t.sort != tm.I:
                raise LeftFragment('np.%s of a non-integer symbolic value' % self.kind)
        if eng is None:
            raise LeftFragment('np.%s on symbolic data outside an engine run' % self.kind)
        eng.note('assumed contract used: np.%s (divisibility, sign and Bezout facts only)' % self.kind)
        zero = tm.IZERO
        if self.kind == 'lcm':
            m = eng.fresh('lcm', 'I')
            eng.assume(Sym(tm.ge(m.t, zero)))
            eng.assume(Sym(tm.implies(tm.and_(*[tm.ne(x.t, zero) for x in xs]), tm.gt(m.t, zero))))
            for x in xs:
                q = eng.fresh('lcmq', 'I')
                fact = tm.eq(m.t, tm.mul(x.t, q.t))
                eng.assume(Sym(fact))
                eng.quotients[(m.t.uid, x.t.uid)] = (q.t, fact)
            return m
        g = eng.fresh('gcd', 'I')
        eng.assume(Sym(tm.ge(g.t, zero)))
        eng.assume(Sym(tm.implies(tm.or_(*[tm.ne(x.t, zero) for x in xs]), tm.gt(g.t, zero))))
        bez = None
        for x in xs:
            r = eng.fresh('gcdr', 'I')
            fact = tm.eq(x.t, tm.mul(g.t, r.t))
            eng.assume(Sym(fact))
            eng.quotients[(x.t.uid, g.t.uid)] = (r.t, fact)
            c = eng.fresh('bezout', 'I')
            term = tm.mul(c.t, x.t)
            bez = term if bez is None else tm.add(bez, term)
        eng.assume(Sym(tm.eq(g.t, bez)))
        return g


lcm = _LcmGcd('lcm')
gcd = _LcmGcd('gcd')

ndarray = _np.ndarray
newaxis = None
nan = _np.nan
inf = _np.inf
e = realconst(Fraction('2.718281828459045'))


def __getattr__(name):
    v = getattr(_np, name)
    if isinstance(v, _types.ModuleType) or isinstance(v, type):
        return v
    if callable(v):
        return _generic(v, name)
    return v
